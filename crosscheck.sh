#!/bin/bash
# Cross-solver spot check: the same harnesses are explored with z3 4.8.12, z3 5.1.0 (z3-new) and cvc5;
# path counts, query counts and verdicts must agree.  (The engine talks SMT-LIB2 to whatever
# GOSYMX_SOLVER names; registered checks use z3 4.8.12.)
cd "$(dirname "$0")"
OV=$(python3 -c "
import glob,os;print(','.join('/repo/%s=%s'%(os.path.basename(f),f) for f in sorted(glob.glob('harness/stun/zz_vx_*.go'))))" | sed "s#=harness#=$(pwd)/harness#g")
H=${1:-vh_C19_value,vh_C19_readvalue,vh_C19_selftest,vh_C13_collect,vh_C06_unknownattrs,vh_C01_selftest,vh_C02_framing,vh_C09_ip}
n=0
for sv in "z3 -in" "z3-new -in" "cvc5 --incremental --lang smt2"; do
  n=$((n+1))
  echo "== $sv"
  GOSYMX_SOLVER="$sv" bin/gosymx -overlay "$OV" -harness "$H" -workers 8 -v -out /dev/null 2>&1 | grep -v WARNING | sed 's/solver=[0-9.]*s wall=[0-9.]*s//' | sort > /tmp/xs.$$.$n
  cat /tmp/xs.$$.$n
done
if cmp -s /tmp/xs.$$.1 /tmp/xs.$$.2 && cmp -s /tmp/xs.$$.1 /tmp/xs.$$.3; then echo "CROSS-SOLVER: agree"; rc=0; else echo "CROSS-SOLVER: DISAGREE"; rc=1; fi
rm -f /tmp/xs.$$.*
exit $rc
