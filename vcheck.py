#!/usr/bin/env python3
"""vcheck — runs the solver-based checks of /verif against /repo's current tree.

usage: vcheck.py <property-id> [quick|thorough]
       vcheck.py --replay <replay.json>
       vcheck.py --selftest            (translator validation only)

Exit codes: 0 held within the stated bounds (KNOWN-FINDING lines possible),
            1 replay-confirmed violation (VIOLATION property=<id> replay=<path>),
            2 inconclusive (unsupported SSA, vacuous harness, encoding mismatch, solver error).
"""
import json, os, subprocess, sys, time, glob, re, hashlib, shutil, concurrent.futures

VERIF = os.path.dirname(os.path.abspath(__file__))
REPO = os.environ.get("VERIF_REPO", "/repo")
BIN = os.path.join(VERIF, "bin", "gosymx")
WORK = os.path.join(VERIF, "work")
ENV = dict(os.environ, GOFLAGS="-mod=mod", GOPROXY="off", GOSUMDB="off", GOTOOLCHAIN="local")
NCPU = os.cpu_count() or 4


def log(*a):
    print(*a, flush=True)


def load_json(p):
    with open(p) as f:
        return json.load(f)


def ensure_engine():
    src = glob.glob(os.path.join(VERIF, "engine", "*.go"))
    if os.path.exists(BIN) and all(os.path.getmtime(BIN) >= os.path.getmtime(s) for s in src):
        return
    os.makedirs(os.path.dirname(BIN), exist_ok=True)
    r = subprocess.run(["go", "build", "-o", BIN, "."], cwd=os.path.join(VERIF, "engine"), env=ENV,
                       stdout=subprocess.PIPE, stderr=subprocess.STDOUT, text=True)
    if r.returncode != 0:
        log("engine build failed:\n" + r.stdout)
        sys.exit(2)


_GOROOT = None


def goroot():
    global _GOROOT
    if _GOROOT is None:
        _GOROOT = subprocess.run(["go", "env", "GOROOT"], env=ENV, stdout=subprocess.PIPE, text=True).stdout.strip()
    return _GOROOT


# package key -> (harness directory, directory the harness is overlaid into, package pattern, package name)
def pkginfo(pkg):
    if pkg == ".":
        return ("stun", REPO, ".", "stun")
    if pkg == "hmac":
        return ("hmac", os.path.join(REPO, "internal", "hmac"), "./internal/hmac", "hmac")
    if pkg == "crc32":
        return ("crc32", os.path.join(goroot(), "src", "hash", "crc32"), "hash/crc32", "crc32")
    raise SystemExit("unknown package key " + pkg)


# harness files that do not compile against the tree under test (e.g. they name an unexported field that a
# refactoring renamed) are left out, so that the checks whose own harnesses still compile keep working
EXCLUDED = {}
EXCL_NOTES = []


def harness_files(pkg):
    return [f for f in all_harness_files(pkg) if os.path.basename(f) not in EXCLUDED.get(pkg, set())]


def all_harness_files(pkg):
    d = os.path.join(VERIF, "harness", pkginfo(pkg)[0])
    if pkg == "hmac":
        # the vx API of package hmac is the stun one with the package clause replaced (regenerated when stale)
        src = os.path.join(VERIF, "harness", "stun", "zz_vx_api.go")
        dst = os.path.join(d, "zz_vx_api.go")
        want = re.sub(r"(?m)^package stun$", "package hmac", open(src).read(), count=1)
        if not os.path.exists(dst) or open(dst).read() != want:
            open(dst, "w").write(want)
    return sorted(glob.glob(os.path.join(d, "zz_vx_*.go")))


def repo_dir(pkg):
    return pkginfo(pkg)[1]


def overlay_arg(pkg):
    return ",".join("%s=%s" % (os.path.join(repo_dir(pkg), os.path.basename(f)), f) for f in harness_files(pkg))


def harness_names(pkg):
    names = []
    for f in harness_files(pkg):
        names += re.findall(r"^func (vh_\w+)\(\)", open(f).read(), re.M)
    return names


def known_findings():
    p = os.path.join(VERIF, "KNOWN_FINDINGS.json")
    if not os.path.exists(p):
        return []
    return load_json(p).get("findings", [])


def run_engine(pkg, tags, harnesses, tier, seed, known_open, extra, outdir):
    """one gosymx process; returns list of result dicts"""
    tag = tags or "release"
    out = os.path.join(outdir, "res-%s-%s-%s.json" % (pkginfo(pkg)[0], tag, hashlib.md5(",".join(harnesses).encode()).hexdigest()[:8]))
    cmd = [BIN, "-repo", REPO, "-pkg", pkginfo(pkg)[2], "-overlay", overlay_arg(pkg),
           "-harness", ",".join(harnesses), "-out", out, "-replays", os.path.join(outdir, "cex"),
           "-seed", str(seed), "-tier", tier, "-known", ",".join(known_open)]
    if tags:
        cmd += ["-tags", tags]
    if "-timeout" not in extra:
        cmd += ["-timeout", "180000"]  # per-query soft limit; registered runs stay far below it (worst observed: 16 s)
    if "-maxviol" not in extra:
        cmd += ["-maxviol", "2"]  # one reproducible counterexample decides; keeps runs on broken trees short
    cmd += extra
    t0 = time.time()
    r = subprocess.run(cmd, env=ENV, stdout=subprocess.PIPE, stderr=subprocess.STDOUT, text=True)
    for _ in range(12):
        if r.returncode == 0 or "load error" not in r.stdout:
            break
        found = set(re.findall(r"(zz_vx_\w+\.go):\d+:\d+:", r.stdout)) - {"zz_vx_api.go"}
        bad = found - EXCLUDED.get(pkg, set())
        if not found or (not bad and cmd[cmd.index("-overlay") + 1] == overlay_arg(pkg)):
            break
        EXCLUDED.setdefault(pkg, set()).update(bad)
        if bad:
            EXCL_NOTES.append("harness file(s) %s do not compile against this tree and were left out: %s" % (
                ", ".join(sorted(bad)), " | ".join(l for l in r.stdout.splitlines() if "zz_vx_" in l)[:400]))
        missing = [h for h in harnesses if h not in harness_names(pkg)]
        if missing:
            return [{"harness": h, "tags": tags, "unsupported": "the harness does not compile against this tree: " + r.stdout[-1500:], "inconclusive": True,
                     "violations": [], "paths": 0, "queries": 0, "instrs": 0, "asserts": {}, "reach": [], "solver_s": 0,
                     "wall_s": time.time() - t0, "functions_encoded": []} for h in harnesses]
        cmd[cmd.index("-overlay") + 1] = overlay_arg(pkg)
        r = subprocess.run(cmd, env=ENV, stdout=subprocess.PIPE, stderr=subprocess.STDOUT, text=True)
    if r.returncode != 0 or not os.path.exists(out):
        return [{"harness": h, "tags": tags, "unsupported": "engine failed: " + r.stdout[-2000:], "inconclusive": True,
                 "violations": [], "paths": 0, "queries": 0, "instrs": 0, "asserts": {}, "reach": [], "solver_s": 0,
                 "wall_s": time.time() - t0, "functions_encoded": []} for h in harnesses]
    return load_json(out)


def native_replay(path, tier="quick", timeout=300):
    """replays a counterexample file natively; returns (verdict, detail)"""
    rf = load_json(path)
    pkg = "." if not rf.get("pkg") or rf.get("pkg") == "." else rf["pkg"]
    tags = rf.get("tags", "")
    wd = os.path.join(WORK, "replay-%d-%s" % (os.getpid(), hashlib.md5(path.encode()).hexdigest()[:8]))
    os.makedirs(wd, exist_ok=True)
    rd = repo_dir(pkg)
    pkgname = pkginfo(pkg)[3]
    reg = os.path.join(wd, "zz_vx_registry.go")
    with open(reg, "w") as f:
        f.write("package %s\n\nvar vxHarnesses = map[string]func(){\n" % pkgname)
        for n in harness_names(pkg):
            f.write('\t"%s": %s,\n' % (n, n))
        f.write("}\n")
    tst = os.path.join(wd, "zz_vx_replay_test.go")
    src = open(os.path.join(VERIF, "harness", "stun", "zz_vx_replay_test.go.txt")).read()
    if pkgname != "stun":
        src = src.replace("package stun", "package " + pkgname)
    open(tst, "w").write(src)
    repl = {os.path.join(rd, os.path.basename(f)): f for f in harness_files(pkg)}
    repl[os.path.join(rd, "zz_vx_registry.go")] = reg
    repl[os.path.join(rd, "zz_vx_replay_test.go")] = tst
    ov = os.path.join(wd, "overlay.json")
    json.dump({"Replace": repl}, open(ov, "w"))
    cmd = ["go", "test", "-v", "-vet=off", "-count=1", "-overlay", ov, "-run", "^TestVxReplay$", "-timeout", "%ds" % timeout]
    if tags:
        cmd += ["-tags", tags]
    cmd += ["."]
    env = dict(ENV, VX_REPLAY=os.path.abspath(path), VX_TIER=tier, VX_KNOWN=",".join(k["key"] for k in known_findings() if k.get("status") == "open"))
    try:
        r = subprocess.run(cmd, cwd=rd, env=env, stdout=subprocess.PIPE, stderr=subprocess.STDOUT, text=True, timeout=timeout + 120)
        out = r.stdout
    except subprocess.TimeoutExpired as e:
        out = (e.stdout or b"").decode() if isinstance(e.stdout, bytes) else (e.stdout or "")
        shutil.rmtree(wd, ignore_errors=True)
        return "VIOLATION", "native run did not terminate within %ds" % timeout
    shutil.rmtree(wd, ignore_errors=True)
    m = re.search(r"VX-VERDICT: (\S+) ?(.*)", out)
    if m:
        return m.group(1), m.group(2).strip()
    if "vxAssumeFailed" in out:
        return "ASSUME-FAILED", "an assumption of the harness does not hold for the replayed values"
    if "fatal error: stack overflow" in out or "goroutine stack exceeds" in out:
        return "VIOLATION", "fatal error: stack overflow"
    if "panic:" in out or "fatal error:" in out:
        mm = re.search(r"(panic: .*|fatal error: .*)", out)
        return "VIOLATION", mm.group(1)[:200]
    if "test timed out" in out:
        return "VIOLATION", "native run timed out"
    return "ERROR", out[-1500:]


def race_confirm(pid):
    """native confirmation of a lock-discipline finding: the generic concurrent test of the component under -race"""
    wd = os.path.join(WORK, "race-%d" % os.getpid())
    os.makedirs(wd, exist_ok=True)
    pkg = "hmac" if pid == "C18" else "."
    tst = os.path.join(wd, "zz_vx_race_test.go")
    shutil.copy(os.path.join(VERIF, "harness", pkginfo(pkg)[0], "zz_vx_race_test.go.txt"), tst)
    ov = os.path.join(wd, "overlay.json")
    json.dump({"Replace": {os.path.join(repo_dir(pkg), "zz_vx_race_test.go"): tst}}, open(ov, "w"))
    try:
        which = "^TestVxPoolRace$" if pid == "C18" else ("^TestVxAgentRace$" if pid in ("C13", "C14") else "^TestVxClientRace$")
        r = subprocess.run(["go", "test", "-race", "-vet=off", "-count=1", "-overlay", ov, "-run", which, "-timeout", "300s", pkginfo(pkg)[2]], cwd=REPO, env=ENV,
                           stdout=subprocess.PIPE, stderr=subprocess.STDOUT, text=True, timeout=600)
        out = r.stdout
    except subprocess.TimeoutExpired:
        out = "timeout (deadlock?)"
    rdir = os.path.join(VERIF, "replays", pid)
    os.makedirs(rdir, exist_ok=True)
    dst = os.path.join(rdir, "zz_vx_race_test.go")
    shutil.copy(tst, dst)
    shutil.rmtree(wd, ignore_errors=True)
    if "DATA RACE" in out:
        return True, "race detector: DATA RACE reported", dst
    if "differs from crypto/hmac" in out:
        return True, "concurrent use produced a wrong MAC", dst
    if "timeout" in out or "test timed out" in out or "all goroutines are asleep" in out:
        return True, "native run deadlocked / timed out", dst
    return False, out[-300:], dst


def url_model_validation():
    """native differential run: model of url.Parse/ParseQuery vs the real functions (validates an assumption)"""
    wd = os.path.join(WORK, "urlmodel-%d" % os.getpid())
    os.makedirs(wd, exist_ok=True)
    tst = os.path.join(wd, "zz_vx_urlmodel_test.go")
    shutil.copy(os.path.join(VERIF, "harness", "stun", "zz_vx_urlmodel_test.go.txt"), tst)
    repl = {os.path.join(REPO, os.path.basename(f)): f for f in harness_files(".")}
    repl[os.path.join(REPO, "zz_vx_urlmodel_test.go")] = tst
    ov = os.path.join(wd, "overlay.json")
    json.dump({"Replace": repl}, open(ov, "w"))
    r = subprocess.run(["go", "test", "-v", "-vet=off", "-count=1", "-overlay", ov, "-run", "^TestVxURLModel$", "."], cwd=REPO, env=ENV,
                       stdout=subprocess.PIPE, stderr=subprocess.STDOUT, text=True)
    shutil.rmtree(wd, ignore_errors=True)
    m = re.search(r"VX-URLMODEL: compared (\d+) inputs, (\d+) disagreements", r.stdout)
    if not m:
        return None, r.stdout[-800:]
    return (int(m.group(1)), int(m.group(2))), r.stdout[-800:]


def main():
    if len(sys.argv) >= 3 and sys.argv[1] == "--replay":
        ensure_engine()
        v, d = native_replay(sys.argv[2])
        log("replay verdict: %s %s" % (v, d))
        sys.exit(1 if v == "VIOLATION" else 0)
    if len(sys.argv) < 2:
        log(__doc__)
        sys.exit(2)
    pid = sys.argv[1]
    tier = sys.argv[2] if len(sys.argv) > 2 else os.environ.get("VERIF_TIER", "quick")
    if tier not in ("quick", "thorough"):
        tier = "quick"
    seed = int(os.environ.get("VERIF_SEED", "0") or 0)
    t0 = time.time()
    ensure_engine()
    specs = load_json(os.path.join(VERIF, "checks.json"))
    if pid not in specs:
        log("no check registered for", pid)
        sys.exit(2)
    spec = specs[pid]
    outdir = os.path.join(WORK, "%s-%s-%d" % (pid, tier, os.getpid()))
    shutil.rmtree(outdir, ignore_errors=True)
    os.makedirs(outdir, exist_ok=True)
    kf = [k for k in known_findings() if k.get("property") == pid]
    # region keys of every open finding (a harness shared between properties excludes the same region everywhere)
    known_open = [k["key"] for k in known_findings() if k.get("status") == "open"]

    # group harness runs: one engine process per (pkg, tags, group)
    jobs = []
    for run in spec["runs"]:
        if tier not in run.get("tiers", ["quick", "thorough"]):
            continue
        for tags in run.get("tags", [""]):
            extra = list(run.get("args", []))
            extra += run.get("args_" + tier, [])
            jobs.append((run.get("pkg", "."), tags, run["harnesses"], extra))
    nworkers = min(NCPU, max(4, (2 * NCPU) // max(1, len(jobs))))  # mild oversubscription: jobs differ a lot in length
    results = []
    with concurrent.futures.ThreadPoolExecutor(max_workers=max(1, min(len(jobs), NCPU))) as ex:
        futs = [ex.submit(run_engine, pkg, tags, hs, tier, seed, known_open, extra + ["-workers", str(nworkers)], outdir)
                for (pkg, tags, hs, extra) in jobs]
        for (job, f) in zip(jobs, futs):
            for r in f.result():
                r["pkg"] = job[0]
                results.append(r)

    inconclusive = []
    degraded = []
    violations = []      # (result, violation)
    known_hits = []
    selftests_ok = 0
    replays_done = 0
    expect = spec.get("reach", {})
    kf_harness = {k.get("harness"): k for k in kf if k.get("status") == "open"}
    for r in results:
        h = r["harness"]
        if r.get("unsupported") and "vxLoopCut:" in r["unsupported"] and "shape changed" in r["unsupported"]:
            # the loop the induction hooks were written for has another shape in this tree: the inductive
            # harness does not apply; the unrolled harnesses of the same property still decide it within
            # their attribute bound.  Reported, recorded in evidence, not a failure of the check.
            degraded.append("%s[%s]: loop-cut induction not applicable to this tree's loop shape (claim reduced to the unrolled bound): %s" % (
                h, r.get("tags") or "release", r["unsupported"][:300]))
            continue
        if r.get("unsupported"):
            inconclusive.append("%s[%s]: %s" % (h, r.get("tags") or "release", r["unsupported"][:600]))
            continue
        is_self = h.endswith("_selftest")
        if is_self and r.get("pkg") == "crc32":
            # lemma package (standard library code): solver-only twin, no native replay
            if r.get("violations"):
                selftests_ok += 1
            else:
                inconclusive.append("%s: reachability twin did not come back violated" % h)
            continue
        is_kf = h in kf_harness
        if r.get("inconclusive") and not is_self:
            inconclusive.append("%s[%s]: inconclusive: %s" % (h, r.get("tags") or "release", "; ".join(r.get("notes") or [])[:600] or "solver unknown/error"))
        for tag in expect.get(h, []):
            if tag not in (r.get("reach") or []):
                inconclusive.append("%s[%s]: VACUOUS: reach tag %r not reached" % (h, r.get("tags") or "release", tag))
        vs = r.get("violations") or []
        if is_self:
            if not vs:
                inconclusive.append("%s: reachability twin did not come back violated" % h)
            else:
                v, d = native_replay_pkg(vs[0], r, tier)
                replays_done += 1
                if v == "VIOLATION":
                    selftests_ok += 1
                else:
                    inconclusive.append("%s: reachability twin's counterexample did not replay natively (%s %s)" % (h, v, d))
            continue
        for v in vs:
            if v.get("kind") == "lock-discipline" and spec.get("race_confirm"):
                ok, detail, dst = race_confirm(pid)
                replays_done += 1
                v["native"] = detail
                if ok:
                    v["replay"] = dst
                    v["confirmed_by_race"] = True
                    violations.append((r, v))
                else:
                    inconclusive.append("%s: lock-discipline finding %r at %s was not confirmed by the native race run (%s)" % (h, v.get("label"), v.get("pos"), detail))
                continue
            verdict, detail = native_replay_pkg(v, r, tier)
            replays_done += 1
            v["native"] = verdict + " " + detail
            if verdict == "VIOLATION":
                if is_kf:
                    known_hits.append((kf_harness[h], v))
                else:
                    violations.append((r, v))
            else:
                inconclusive.append("%s[%s]: ENCODING-MISMATCH: solver counterexample for %r did not reproduce natively (%s %s) file=%s" % (
                    h, r.get("tags") or "release", v.get("label"), verdict, detail, v.get("replay")))

    extra_cov = {}
    esc = [r for r in results if r.get("escape_analysis_cmd")]
    if esc:
        extra_cov["escape_analysis"] = sorted({"%s -> %d heap sites (escapes to heap / moved to heap)" % (r["escape_analysis_cmd"], r["escape_heap_sites"]) for r in esc})
    if spec.get("url_model_validation"):
        res, out = url_model_validation()
        if res is None or res[1] != 0:
            inconclusive.append("url-model-validation failed: the model of net/url.Parse/ParseQuery disagrees with the real functions: " + out[-400:])
        else:
            extra_cov["url_model_validation"] = {"inputs_compared": res[0], "disagreements": res[1]}
            replays_done += 1

    # solver counterexamples that rest on an idealised (uninterpreted) function may not replay; when another
    # counterexample of the same run does replay natively the verdict is VIOLATION and the mismatches are notes
    if violations:
        inconclusive = [m for m in inconclusive if "ENCODING-MISMATCH" not in m]

    # keep confirmed counterexamples under /verif/replays/<id>/
    final_viol = []
    rdir = os.path.join(VERIF, "replays", pid)
    for (r, v) in violations:
        os.makedirs(rdir, exist_ok=True)
        dst = os.path.join(rdir, os.path.basename(v["replay"]))
        if os.path.abspath(v["replay"]) != os.path.abspath(dst):
            shutil.copy(v["replay"], dst)
        final_viol.append((r, v, dst))

    wall = time.time() - t0
    if degraded or EXCL_NOTES:
        extra_cov["reduced_on_this_tree"] = degraded + sorted(set(EXCL_NOTES))
    write_evidence(pid, tier, seed, spec, results, final_viol, known_hits, inconclusive, selftests_ok, replays_done, wall, extra_cov)
    shutil.rmtree(outdir, ignore_errors=True)

    seen = set()
    for (k, v) in known_hits:
        if k["key"] in seen:
            continue
        seen.add(k["key"])
        log("KNOWN-FINDING: property=%s %s" % (pid, k["what"]))
    for (r, v, dst) in final_viol:
        log("VIOLATION property=%s replay=%s" % (pid, dst))
        log("  harness=%s tags=%s kind=%s label=%r at %s native=%s" % (r["harness"], r.get("tags") or "release", v["kind"], v["label"], v["pos"], v.get("native")))
    for m in degraded + sorted(set(EXCL_NOTES)):
        log("NOTE:", m)
    if final_viol:
        sys.exit(1)
    if inconclusive:
        for m in inconclusive:
            log("INCONCLUSIVE:", m)
        sys.exit(2)
    tot_q = sum(r.get("queries", 0) for r in results)
    log("OK property=%s tier=%s harness_runs=%d paths=%d queries=%d solver_s=%.1f wall_s=%.1f" % (
        pid, tier, len(results), sum(r.get("paths", 0) for r in results), tot_q, sum(r.get("solver_s", 0) for r in results), wall))
    sys.exit(0)


def native_replay_pkg(v, r, tier):
    if v.get("kind") in ("deadlock", "nontermination"):
        return native_replay_pkg2(v, r, tier, 60)
    return native_replay_pkg2(v, r, tier, 300)


def native_replay_pkg2(v, r, tier, timeout):
    p = v.get("replay")
    if not p or not os.path.exists(p):
        return "ERROR", "no replay file"
    rf = load_json(p)
    rf["pkg"] = r.get("pkg", ".")
    rf["tier"] = tier
    json.dump(rf, open(p, "w"), indent=1)
    if rf.get("values") is None:
        return "ERROR", "model extraction failed"
    return native_replay(p, tier, timeout)


def write_evidence(pid, tier, seed, spec, results, viol, known_hits, inconclusive, selftests_ok, replays_done, wall, extra_cov=None):
    samples = []
    obligations = 0
    distinct = 0
    funcs = set()
    for r in results:
        if r["harness"].endswith("_selftest"):
            continue
        for label, n in sorted((r.get("asserts") or {}).items()):
            obligations += n
            distinct += 1
            if len(samples) < 40:
                samples.append({"harness": r["harness"], "tags": r.get("tags") or "release", "obligation": label,
                                "paths_on_which_discharged": n, "verdict": "unsat (holds within bound)"})
        funcs.update(f for f in (r.get("functions_encoded") or []) if "vh_" not in f)
    real = [r for r in results if not r["harness"].endswith("_selftest")]
    cov = {
        "states": max(1, sum(r.get("paths", 0) for r in real)),
        "transitions": max(1, sum(r.get("instrs", 0) for r in real)),
        "traces_validated_against_impl": replays_done,
        "samples": samples or [{"note": "no obligations discharged"}],
        "evaluations": max(1, sum(r.get("queries", 0) for r in real)),
        "distinct_nontrivial": max(distinct, 0),
        "rule": "evaluations = SMT queries (branch feasibility + obligations); distinct_nontrivial = distinct (harness, build tag, assertion label) obligations discharged by the solver on at least one feasible path; samples list those obligations",
        "explanation": spec.get("explanation", ""),
        "harness_runs": [{"harness": r["harness"], "tags": r.get("tags") or "release", "paths": r.get("paths"), "path_ends": r.get("path_ends"),
                          "queries": r.get("queries"), "assert_queries": r.get("assert_queries"), "branch_queries": r.get("branch_queries"),
                          "solver_s": round(r.get("solver_s", 0), 2), "worst_query_s": round(r.get("worst_query_s", 0), 2), "wall_s": round(r.get("wall_s", 0), 2),
                          "unwind": r.get("unwind"), "unwind_is_assumption": r.get("unwind_is_assumption"), "unwind_cuts": r.get("unwind_cuts"),
                          "reach": r.get("reach"), "violations": len(r.get("violations") or []), "notes": r.get("notes")} for r in results],
        "functions_encoded": sorted(funcs),
        "bounds": spec.get("bounds_" + tier, spec.get("bounds", "")),
        "outside_claim": spec.get("outside", ""),
        "reachability_twins_confirmed": selftests_ok,
        "solver": (results[0].get("solver") if results else "z3 -in"),
        "solver_time_s": round(sum(r.get("solver_s", 0) for r in results), 2),
        "queries_discharged": sum(r.get("queries", 0) for r in results),
        "known_findings_hit": [k["key"] for (k, v) in known_hits],
        "inconclusive": inconclusive,
        "exhaustive": bool(spec.get("exhaustive", False)),
    }
    cov.update(extra_cov or {})
    ev = {
        "property_id": pid, "tier": tier, "seed": seed, "level": spec.get("level", "model_checking"),
        "coverage": cov,
        "assumptions": spec.get("assumptions", []),
        "wall_s": round(wall, 2),
        "violations": len(viol),
    }
    os.makedirs(os.path.join(VERIF, "evidence"), exist_ok=True)
    with open(os.path.join(VERIF, "evidence", pid + ".json"), "w") as f:
        json.dump(ev, f, indent=1)


if __name__ == "__main__":
    main()
