#!/usr/bin/env python3
# Regenerates MANIFEST.json from checks.json (claims) and na.json (not-applicable list).
import json
c = json.load(open('/verif/checks.json'))
na = json.load(open('/verif/na.json'))
checks = []
for pid in sorted(c):
    s = c[pid]
    checks.append({
        "property_id": pid,
        "quick_cmd": "python3 vcheck.py %s quick" % pid,
        "thorough_cmd": "python3 vcheck.py %s thorough" % pid,
        "evidence_file": "/verif/evidence/%s.json" % pid,
        "replay_cmd_template": "python3 vcheck.py --replay {path}",
        "engine": "gosymx",
        "level_claimed": {"category": s.get("level", "model_checking"), "text": s["claim"], "design_ref": "DESIGN.md §4 " + pid},
        "level_note": s["note"],
        "technique": s.get("technique", "bounded symbolic execution of the repository's go/ssa + SMT (z3 bit-vectors), counterexamples replayed natively"),
    })
m = {
    "version": 1,
    "setup_cmd": "cd /verif/engine && GOFLAGS=-mod=mod GOPROXY=off GOSUMDB=off GOTOOLCHAIN=local go build -o /verif/bin/gosymx .",
    "hooks": {
        "guard": "verif",
        "enable": "no hooks: harnesses are injected through go/packages and `go test -overlay` overlays (files /verif/harness/**/zz_vx_*.go); /repo is never modified by the checks",
        "baseline_off_cmd": "cd /repo && go test -mod=mod -json -vet=off -count=1 -timeout 25m ./...",
        "source_commits": [],
        "add_only": True,
    },
    "engines": [{"name": "gosymx", "path": "/verif/engine", "serves_properties": sorted(c),
                 "kind_free_text": "own Go SSA (golang.org/x/tools/go/ssa v0.29.0) -> SMT-LIB2 bit-vector symbolic executor (prefix re-execution DFS, write-log byte memory, if-conversion), z3 4.8.12 back end, native replay of every counterexample via go test -overlay"}],
    "checks": checks,
    "not_applicable": [x for x in na if x["property_id"] not in c],
    "notes": "Every claimed check decides its property by symbolic execution of /repo's current source (re-encoded on each run) with z3; bounds are stated per check in evidence and DESIGN.md. Exit 2 (inconclusive) is never produced on the unchanged tree by a registered command.",
}
json.dump(m, open('/verif/MANIFEST.json', 'w'), indent=1)
print("manifest:", len(checks), "checks,", len(m["not_applicable"]), "not applicable")
