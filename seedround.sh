#!/bin/bash
# seedround.sh <prop> : confirm the three changes an agent left in /tmp/wt4-<prop>/out and run the property's quick check on each
P=$1
WT=/tmp/${WTP:-wt4}-$P
R=${ROUND:-agent3}
rm -rf /tmp/seedin-$P; mkdir -p /tmp/seedin-$P
cp -r $WT/out/* /tmp/seedin-$P/ 2>/dev/null
rm -rf $WT/out $WT/_out
for i in 1 2 3; do
  d=/tmp/seedin-$P/change$i
  [ -f $d/patch.diff ] || continue
  needs=$(tr '\n' ' ' < $d/README.md | cut -c1-900)
  python3 /verif/seeds.py confirm $WT $d/patch.diff $d/demo_test.go $P-$R-$i $P "$needs" 2>&1 | grep -v WARNING
done
for i in 1 2 3; do
  [ -d /verif/seeded/$P-$R-$i ] && python3 /verif/seeds.py run-scratch $P-$R-$i quick 2>&1 | grep -v WARNING
done
