#!/bin/bash
# runs every registered check of the given tier sequentially; prints one line per check
tier=${1:-quick}
cd "$(dirname "$0")"
for id in $(python3 -c "import json;print(' '.join(sorted(json.load(open('checks.json')))))"); do
  s=$(date +%s)
  out=$(python3 vcheck.py $id $tier 2>&1 | grep -v WARNING | tail -3)
  rc=$?
  echo "$id rc=${PIPESTATUS[0]} $(( $(date +%s)-s ))s :: $out"
done
