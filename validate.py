#!/usr/bin/env python3
# validates MANIFEST.json and every evidence file against the schemas (tooling venv: python3-vt)
import json, glob, sys, jsonschema
jsonschema.validate(json.load(open('/verif/MANIFEST.json')), json.load(open('/root/.vp/MANIFEST.schema.json')))
es = json.load(open('/root/.vp/EVIDENCE.schema.json'))
for p in sorted(glob.glob('/verif/evidence/*.json')):
    jsonschema.validate(json.load(open(p)), es)
    print('ok', p)
print('manifest ok')
