#!/bin/bash
# neutralround.sh <N> <prop...> : apply each behaviour-preserving patch in /tmp/wt4-<N>/out/change*/patch.diff to a scratch
# worktree and run the quick checks of the given properties; any exit != 0 is a false alarm (1) or a robustness problem (2)
N=$1; shift
for d in /tmp/wt4-$N/out/change*; do
  i=$(basename $d)
  S=/tmp/neutral-$N-$i
  rm -rf $S; git -C /repo worktree prune; git -C /repo worktree add -q --detach $S HEAD
  if ! git -C $S apply $d/patch.diff; then echo "$N $i APPLY-FAILED"; git -C /repo worktree remove --force $S; continue; fi
  for p in "$@"; do
    cp /verif/evidence/$p.json /tmp/ev-$N-$p.json
    out=$(VERIF_REPO=$S timeout 3000 python3 /verif/vcheck.py $p quick 2>&1 | grep -v WARNING)
    rc=$?
    cp /tmp/ev-$N-$p.json /verif/evidence/$p.json
    echo "$N $i $p: $(echo "$out" | grep -E '^(OK|VIOLATION|INCONCLUSIVE|KNOWN)' | head -3 | cut -c1-400)"
    echo "$out" | grep -A1 "^VIOLATION" | grep harness | head -2 | cut -c1-500
  done
  git -C /repo worktree remove --force $S; rm -rf $S
done
