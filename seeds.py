#!/usr/bin/env python3
"""seeds.py confirm <worktree> <patch.diff> <demo_test.go> <seed-name> <property> "<needs>"
      -> confirms the seeded change in the scratch worktree and stores it under /verif/seeded/<seed-name>/
   seeds.py run <seed-name> [tier]
      -> applies the stored patch to /repo, runs the property's check, undoes the patch, records the outcome in meta.json
"""
import json, os, subprocess, sys, shutil, time
ENV = dict(os.environ, GOFLAGS="-mod=mod", GOPROXY="off", GOSUMDB="off", GOTOOLCHAIN="local")
SEEDED = "/verif/seeded"


def sh(cmd, cwd, timeout=1800):
    r = subprocess.run(cmd, cwd=cwd, env=ENV, shell=True, stdout=subprocess.PIPE, stderr=subprocess.STDOUT, text=True, timeout=timeout)
    return r.returncode, r.stdout


def confirm(wt, patch, demo, name, prop, needs):
    log = []
    sub = "internal/hmac" if "package hmac" in open(demo).read() else "."
    sh("git checkout -- . && rm -f zz_demo*_test.go zz_seed_demo_test.go internal/hmac/zz_demo*_test.go internal/hmac/zz_seed_demo_test.go", wt)
    patch, demo = os.path.abspath(patch), os.path.abspath(demo)
    tmp_patch, tmp_demo = "/tmp/_seed_patch_%s.diff" % name, "/tmp/_seed_demo_%s_test.go" % name
    shutil.copy(patch, tmp_patch)
    shutil.copy(demo, tmp_demo)
    if os.path.isdir(os.path.join(wt, "out")):
        keep = "/tmp/seedout-" + os.path.basename(wt)
        if not os.path.exists(keep):
            shutil.move(os.path.join(wt, "out"), keep)
        else:
            shutil.rmtree(os.path.join(wt, "out"))
    # clean tree: suite + demo pass
    shutil.copy(tmp_demo, os.path.join(wt, sub, "zz_seed_demo_test.go"))
    rc, out = sh("go test -vet=off -count=1 -timeout 120s ./%s 2>&1 | tail -5" % sub, wt)
    ok_clean = "ok " in out and "FAIL" not in out
    log.append(("clean tree: suite + demo", ok_clean, out[-300:]))
    os.remove(os.path.join(wt, sub, "zz_seed_demo_test.go"))
    # patched: builds, suite passes in both tags
    rc, out = sh("git apply %s" % tmp_patch, wt)
    log.append(("git apply", rc == 0, out[-300:]))
    rc1, out1 = sh("go build ./... && go test -vet=off -count=1 ./... 2>&1 | grep -v 'no test files' | tail -5", wt)
    rc2, out2 = sh("go test -vet=off -count=1 -tags debug . 2>&1 | tail -3", wt)
    ok_suite = "FAIL" not in out1 and "FAIL" not in out2 and "ok " in out1 and "ok " in out2
    log.append(("patched: existing suite passes (release+debug)", ok_suite, (out1 + out2)[-400:]))
    shutil.copy(tmp_demo, os.path.join(wt, sub, "zz_seed_demo_test.go"))
    rc, out = sh("go test -vet=off -count=1 -timeout 120s ./%s 2>&1 | tail -15" % sub, wt)
    ok_demo = "FAIL" in out or "panic" in out
    log.append(("patched: demo fails", ok_demo, out[-400:]))
    sh("git checkout -- . && rm -f zz_seed_demo_test.go internal/hmac/zz_seed_demo_test.go", wt)
    allok = all(x[1] for x in log)
    for x in log:
        print("%-50s %s" % (x[0], "OK" if x[1] else "NOT CONFIRMED"))
        if not x[1]:
            print(x[2])
    if not allok:
        print("seed NOT kept")
        return 1
    d = os.path.join(SEEDED, name)
    os.makedirs(d, exist_ok=True)
    shutil.copy(tmp_patch, os.path.join(d, "patch.diff"))
    shutil.copy(tmp_demo, os.path.join(d, "demo_test.go.txt"))
    meta = {"seed": name, "property": prop, "needs_to_manifest": needs,
            "confirmed": {"existing_suite_passes_with_patch": True, "demo_fails_with_patch": True, "demo_passes_without_patch": True,
                          "commands": ["go test -vet=off -count=1 ./... (patched)", "go test -vet=off -count=1 -tags debug . (patched)",
                                       "go test -vet=off -count=1 . with the demo test (patched: FAIL, clean: ok)"],
                          "where": wt, "when": time.strftime("%Y-%m-%dT%H:%M:%S")},
            "runs": []}
    json.dump(meta, open(os.path.join(d, "meta.json"), "w"), indent=1)
    print("seed kept:", d)
    return 0


def run_scratch(name, tier="quick"):
    """like run, but on a scratch copy of /repo (used while something else needs /repo unchanged)"""
    d = os.path.join(SEEDED, name)
    meta = json.load(open(os.path.join(d, "meta.json")))
    prop = meta["property"]
    scratch = "/tmp/seedrun-" + name
    shutil.rmtree(scratch, ignore_errors=True)
    evp = "/verif/evidence/%s.json" % prop
    saved_ev = open(evp).read() if os.path.exists(evp) else None
    sh("git worktree prune; git worktree add -q --detach %s HEAD" % scratch, "/repo")
    try:
        rc, out = sh("git apply %s" % os.path.join(d, "patch.diff"), scratch)
        if rc != 0:
            print("apply failed", out)
            return 2
        t0 = time.time()
        rc, out = sh("VERIF_REPO=%s python3 vcheck.py %s %s" % (scratch, prop, tier), "/verif", timeout=7200)
    finally:
        sh("git worktree remove --force %s" % scratch, "/repo")
        shutil.rmtree(scratch, ignore_errors=True)
        if saved_ev is not None:
            open(evp, "w").write(saved_ev)  # committed evidence always describes the unchanged tree
    lines = [l for l in out.splitlines() if l.startswith(("VIOLATION", "INCONCLUSIVE", "OK ", "  harness"))]
    res = {"tier": tier, "exit": rc, "wall_s": round(time.time() - t0, 1), "verdict": "detected" if rc == 1 else ("missed" if rc == 0 else "inconclusive"),
           "output": lines[:8], "verif_commit": sh("git rev-parse --short HEAD", "/verif")[1].strip(), "applied_to": "scratch worktree of /repo HEAD (VERIF_REPO)"}
    meta["runs"].append(res)
    json.dump(meta, open(os.path.join(d, "meta.json"), "w"), indent=1)
    print(name, prop, res["verdict"], "exit", rc, "%.0fs" % res["wall_s"])
    for l in lines[:6]:
        print("   ", l[:220])
    shutil.rmtree(os.path.join("/verif/replays", prop), ignore_errors=True)
    return 0


def run(name, tier="quick"):
    d = os.path.join(SEEDED, name)
    meta = json.load(open(os.path.join(d, "meta.json")))
    prop = meta["property"]
    rc, out = sh("git status --porcelain", "/repo")
    if out.strip():
        print("/repo is not clean:", out)
        return 2
    rc, out = sh("git apply %s" % os.path.join(d, "patch.diff"), "/repo")
    if rc != 0:
        print("apply failed", out)
        return 2
    t0 = time.time()
    evp = "/verif/evidence/%s.json" % prop
    saved_ev = open(evp).read() if os.path.exists(evp) else None
    try:
        rc, out = sh("python3 vcheck.py %s %s" % (prop, tier), "/verif", timeout=3600)
    finally:
        sh("git checkout -- .", "/repo")
        if saved_ev is not None:
            open(evp, "w").write(saved_ev)
    lines = [l for l in out.splitlines() if l.startswith(("VIOLATION", "INCONCLUSIVE", "OK ", "  harness"))]
    res = {"tier": tier, "exit": rc, "wall_s": round(time.time() - t0, 1), "verdict": "detected" if rc == 1 else ("missed" if rc == 0 else "inconclusive"),
           "output": lines[:8], "verif_commit": sh("git rev-parse --short HEAD", "/verif")[1].strip()}
    meta["runs"].append(res)
    json.dump(meta, open(os.path.join(d, "meta.json"), "w"), indent=1)
    print(name, prop, res["verdict"], "exit", rc, "%.0fs" % res["wall_s"])
    for l in lines[:6]:
        print("   ", l[:220])
    # replays of seeded runs are not findings of the unchanged tree
    shutil.rmtree(os.path.join("/verif/replays", prop), ignore_errors=True)
    return 0


if __name__ == "__main__":
    if sys.argv[1] == "confirm":
        sys.exit(confirm(*sys.argv[2:8]))
    if sys.argv[1] == "run":
        sys.exit(run(*sys.argv[2:4]))
    if sys.argv[1] == "run-scratch":
        sys.exit(run_scratch(*sys.argv[2:4]))
