// gosymx: symbolic execution of Go SSA harnesses against /repo's current source.
package main

import (
	"encoding/json"
	"flag"
	"fmt"
	"os"
	"runtime"
	"strings"
)

func main() {
	var (
		repo    = flag.String("repo", "/repo", "repository root")
		tags    = flag.String("tags", "", "build tags")
		pkg     = flag.String("pkg", ".", "package pattern holding the harness")
		overlay = flag.String("overlay", "", "virt=real[,virt=real...]")
		harness = flag.String("harness", "", "harness function name(s), comma separated")
		workers = flag.Int("workers", runtime.NumCPU(), "parallel path workers")
		timeout = flag.Int("timeout", 60000, "solver timeout per query (ms)")
		seed    = flag.Int("seed", 0, "solver seed")
		unwind  = flag.Int("unwind", 64, "default loop unwinding (iterations of a symbolic loop condition)")
		cut     = flag.Bool("cut", false, "treat the unwinding limit as an assumption")
		rec     = flag.Int("reclimit", 64, "call depth limit")
		maxv    = flag.Int("maxviol", 3, "stop after this many distinct violations")
		maxp    = flag.Int("maxpaths", 200000, "path budget")
		maxi    = flag.Int("maxinstrs", 20000000, "instruction budget per path")
		out     = flag.String("out", "", "result JSON file (default stdout)")
		replays = flag.String("replays", "", "directory for counterexample files")
		nomerge = flag.Bool("nomerge", false, "disable if-conversion")
		verbose = flag.Bool("v", false, "verbose")
		selfrec = flag.Int("selfrec", 4, "how often one function may be active on a call stack before it counts as unbounded recursion")
		tier    = flag.String("tier", "quick", "quick|thorough (read by harnesses through vxThorough)")
		escapes = flag.Bool("escapes", false, "run the compiler's escape analysis (go build -gcflags=-m) for vxAllocs")
		known   = flag.String("known", "", "comma separated keys of open known findings (vxKnownOpen)")
	)
	flag.Parse()
	ov := map[string]string{}
	if *overlay != "" {
		for _, kv := range strings.Split(*overlay, ",") {
			p := strings.SplitN(kv, "=", 2)
			if len(p) == 2 {
				ov[p[0]] = p[1]
			}
		}
	}
	cfg := Config{Repo: *repo, Tags: *tags, Pkg: *pkg, Overlay: ov, Workers: *workers, TimeoutMs: *timeout, Seed: *seed,
		MaxInstrs: *maxi, NoMerge: *nomerge, Unwind: *unwind, UnwindCut: *cut, RecLimit: *rec, MaxViol: *maxv, MaxPaths: *maxp,
		ReplayDir: *replays, Verbose: *verbose, Tier: *tier, Escapes: *escapes, SelfRecLimit: *selfrec, Known: map[string]bool{}}
	for _, k := range strings.Split(*known, ",") {
		if k != "" {
			cfg.Known[k] = true
		}
	}
	g, err := Load(cfg)
	if err != nil {
		fmt.Fprintln(os.Stderr, "load error:", err)
		os.Exit(2)
	}
	var results []*Result
	for _, h := range strings.Split(*harness, ",") {
		if h == "" {
			continue
		}
		r := g.RunHarness(h)
		results = append(results, r)
		if *verbose {
			fmt.Fprintf(os.Stderr, "%s[%s]: paths=%d %v queries=%d solver=%.1fs wall=%.1fs viol=%d unsup=%q notes=%v\n", h, cfg.Tags, r.Paths, r.PathEnds, r.Queries, r.SolverS, r.WallS, len(r.Violations), r.Unsupported, r.Notes)
		}
	}
	b, _ := json.MarshalIndent(results, "", " ")
	if *out != "" {
		os.WriteFile(*out, b, 0o644)
	} else {
		os.Stdout.Write(b)
		fmt.Println()
	}
}
