package main

import (
	"math/rand"
	"testing"
)

// Randomised check of the term builder: every construction-time rewrite
// (constant folding, linear normalisation, interval-based folding, conversion
// shortcuts) must preserve the value of the term, and the interval attached to
// a term must contain its value.  Reference values are computed alongside with
// plain Go arithmetic on the concrete assignment.

type rexpr struct {
	t   *Term
	val func(env map[string]uint64) uint64
}

func genExpr(tb *TB, r *rand.Rand, depth int, w int, vars []string, vw map[string]int) rexpr {
	m := mask(w)
	if depth == 0 || r.Intn(5) == 0 {
		if r.Intn(3) == 0 {
			k := r.Uint64() & m
			if r.Intn(2) == 0 {
				k = uint64(r.Intn(70))
			}
			return rexpr{tb.K(w, k), func(map[string]uint64) uint64 { return k & m }}
		}
		// a variable, possibly narrower and zero-extended (as the harness inputs are)
		name := vars[r.Intn(len(vars))]
		nw := vw[name]
		v := tb.Var(name, nw)
		if nw == w {
			return rexpr{v, func(e map[string]uint64) uint64 { return e[name] & m }}
		}
		if nw < w {
			return rexpr{tb.Conv(v, w, false), func(e map[string]uint64) uint64 { return e[name] & mask(nw) }}
		}
		return rexpr{tb.Conv(v, w, false), func(e map[string]uint64) uint64 { return e[name] & m }}
	}
	a := genExpr(tb, r, depth-1, w, vars, vw)
	b := genExpr(tb, r, depth-1, w, vars, vw)
	switch r.Intn(14) {
	case 0:
		return rexpr{tb.Bin(OAdd, a.t, b.t), func(e map[string]uint64) uint64 { return (a.val(e) + b.val(e)) & m }}
	case 1:
		return rexpr{tb.Bin(OSub, a.t, b.t), func(e map[string]uint64) uint64 { return (a.val(e) - b.val(e)) & m }}
	case 2:
		return rexpr{tb.Bin(OMul, a.t, b.t), func(e map[string]uint64) uint64 { return (a.val(e) * b.val(e)) & m }}
	case 3:
		return rexpr{tb.Bin(OAnd, a.t, b.t), func(e map[string]uint64) uint64 { return a.val(e) & b.val(e) }}
	case 4:
		return rexpr{tb.Bin(OOr, a.t, b.t), func(e map[string]uint64) uint64 { return a.val(e) | b.val(e) }}
	case 5:
		return rexpr{tb.Bin(OXor, a.t, b.t), func(e map[string]uint64) uint64 { return a.val(e) ^ b.val(e) }}
	case 6:
		k := uint64(r.Intn(w + 2))
		return rexpr{tb.Bin(OShl, a.t, tb.K(w, k)), func(e map[string]uint64) uint64 {
			if k >= uint64(w) {
				return 0
			}
			return (a.val(e) << k) & m
		}}
	case 7:
		k := uint64(r.Intn(w + 2))
		return rexpr{tb.Bin(OLshr, a.t, tb.K(w, k)), func(e map[string]uint64) uint64 {
			if k >= uint64(w) {
				return 0
			}
			return a.val(e) >> k
		}}
	case 8:
		k := uint64(1 + r.Intn(9))
		return rexpr{tb.Bin(OUdiv, a.t, tb.K(w, k)), func(e map[string]uint64) uint64 { return a.val(e) / k }}
	case 9:
		k := uint64(1 + r.Intn(9))
		return rexpr{tb.Bin(OUrem, a.t, tb.K(w, k)), func(e map[string]uint64) uint64 { return a.val(e) % k }}
	case 10:
		k := int64(1 + r.Intn(9))
		return rexpr{tb.Bin(OSdiv, a.t, tb.K(w, uint64(k))), func(e map[string]uint64) uint64 { return uint64(sx(a.val(e), w)/k) & m }}
	case 11:
		k := int64(1 + r.Intn(9))
		return rexpr{tb.Bin(OSrem, a.t, tb.K(w, uint64(k))), func(e map[string]uint64) uint64 { return uint64(sx(a.val(e), w)%k) & m }}
	case 12:
		c := genBool(tb, r, depth-1, w, vars, vw)
		return rexpr{tb.Ite(c.t, a.t, b.t), func(e map[string]uint64) uint64 {
			if c.val(e) == 1 {
				return a.val(e)
			}
			return b.val(e)
		}}
	default:
		// truncate and widen again (int(uint16(x)) patterns)
		nw := []int{8, 16, 32}[r.Intn(3)]
		if nw >= w {
			return a
		}
		signed := r.Intn(2) == 0
		t := tb.Conv(tb.Conv(a.t, nw, false), w, signed)
		return rexpr{t, func(e map[string]uint64) uint64 {
			v := a.val(e) & mask(nw)
			if signed {
				return uint64(sx(v, nw)) & m
			}
			return v
		}}
	}
}

func genBool(tb *TB, r *rand.Rand, depth int, w int, vars []string, vw map[string]int) rexpr {
	a := genExpr(tb, r, depth, w, vars, vw)
	b := genExpr(tb, r, depth, w, vars, vw)
	b2u := func(x bool) uint64 {
		if x {
			return 1
		}
		return 0
	}
	switch r.Intn(5) {
	case 0:
		return rexpr{tb.Cmp(OEq, a.t, b.t), func(e map[string]uint64) uint64 { return b2u(a.val(e) == b.val(e)) }}
	case 1:
		return rexpr{tb.Cmp(OUlt, a.t, b.t), func(e map[string]uint64) uint64 { return b2u(a.val(e) < b.val(e)) }}
	case 2:
		return rexpr{tb.Cmp(OUle, a.t, b.t), func(e map[string]uint64) uint64 { return b2u(a.val(e) <= b.val(e)) }}
	case 3:
		return rexpr{tb.Cmp(OSlt, a.t, b.t), func(e map[string]uint64) uint64 { return b2u(sx(a.val(e), w) < sx(b.val(e), w)) }}
	default:
		return rexpr{tb.Cmp(OSle, a.t, b.t), func(e map[string]uint64) uint64 { return b2u(sx(a.val(e), w) <= sx(b.val(e), w)) }}
	}
}

func TestTermRewritesPreserveValue(t *testing.T) {
	r := rand.New(rand.NewSource(20261004))
	vars := []string{"a", "b", "c", "d"}
	for iter := 0; iter < 30000; iter++ {
		tb := newTB()
		w := []int{8, 16, 32, 64}[r.Intn(4)]
		vw := map[string]int{"a": w, "b": []int{3, 7, 16, 17}[r.Intn(4)], "c": w, "d": 5}
		for k, x := range vw {
			if x > w {
				vw[k] = w
			}
		}
		var ex rexpr
		if r.Intn(3) == 0 {
			ex = genBool(tb, r, 3, w, vars, vw)
		} else {
			ex = genExpr(tb, r, 4, w, vars, vw)
		}
		for trial := 0; trial < 12; trial++ {
			env := map[string]uint64{}
			for _, v := range vars {
				x := r.Uint64()
				switch r.Intn(4) {
				case 0:
					x = uint64(r.Intn(8))
				case 1:
					x = mask(vw[v]) - uint64(r.Intn(4))
				}
				env[v] = x & mask(vw[v])
			}
			m := &Model{vars: env}
			got := m.eval(ex.t, map[*Term]uint64{})
			want := ex.val(env)
			if got != want {
				t.Fatalf("iter %d: value mismatch: term gives %d, reference %d (w=%d env=%v)", iter, got, want, w, env)
			}
			if ex.t.w > 0 && ex.t.w <= 64 && (got < ex.t.rlo || got > ex.t.rhi) {
				t.Fatalf("iter %d: value %d outside the term's interval [%d,%d] (w=%d env=%v)", iter, got, ex.t.rlo, ex.t.rhi, w, env)
			}
		}
	}
}
