// Engine: loading /repo's current source (+ harness overlay) into go/ssa and
// driving path exploration.
package main

import (
	"encoding/hex"
	"encoding/json"
	"fmt"
	"go/ast"
	"go/token"
	"go/types"
	"os"
	"path/filepath"
	"runtime/debug"
	"sort"
	"strings"
	"sync"
	"time"

	"golang.org/x/tools/go/packages"
	"golang.org/x/tools/go/ssa"
	"golang.org/x/tools/go/ssa/ssautil"
)

type Config struct {
	Repo         string
	Tags         string
	Pkg          string // "." or "./internal/hmac"
	Overlay      map[string]string
	Workers      int
	TimeoutMs    int
	Seed         int
	MaxInstrs    int
	NoMerge      bool
	Unwind       int
	UnwindCut    bool
	RecLimit     int
	MaxViol      int
	MaxPaths     int
	ReplayDir    string
	Verbose      bool
	Tier         string
	SelfRecLimit int
	Known        map[string]bool
	Escapes      bool
}

type Engine struct {
	cfg             Config
	prog            *ssa.Program
	pkg             *ssa.Package // package holding the harness
	fset            *token.FileSet
	errorType       types.Type
	errorStringType types.Type
	initPkg         map[string]bool
	intr            map[string]intrinsic
	sizes           types.Sizes
	LoadTime        time.Duration
	esc             *escInfo             // compiler escape analysis of the package under test (-escapes)
	astFiles        map[string]*ast.File // syntax of the package under test, by file name
}

type intrinsic func(e *Exec, fn *ssa.Function, args []Value, pos token.Pos) Value

func (g *Engine) pos(p token.Pos) string {
	if !p.IsValid() {
		return "-"
	}
	q := g.fset.Position(p)
	return fmt.Sprintf("%s:%d", q.Filename, q.Line)
}

func (g *Engine) sizeof(t types.Type) uint64 {
	defer func() { recover() }()
	return uint64(g.sizes.Sizeof(t))
}

func Load(cfg Config) (*Engine, error) {
	t0 := time.Now()
	ov := map[string][]byte{}
	for virt, real := range cfg.Overlay {
		b, err := os.ReadFile(real)
		if err != nil {
			return nil, err
		}
		ov[virt] = b
	}
	pc := &packages.Config{Mode: packages.LoadAllSyntax, Dir: cfg.Repo, Overlay: ov,
		Env: append(os.Environ(), "GOFLAGS=-mod=mod", "GOPROXY=off", "GOSUMDB=off", "GOTOOLCHAIN=local")}
	if cfg.Tags != "" {
		pc.BuildFlags = []string{"-tags=" + cfg.Tags}
	}
	pkgs, err := packages.Load(pc, cfg.Pkg)
	if err != nil {
		return nil, err
	}
	if packages.PrintErrors(pkgs) > 0 {
		return nil, fmt.Errorf("package load errors")
	}
	prog, sp := ssautil.AllPackages(pkgs, ssa.InstantiateGenerics)
	prog.Build()
	g := &Engine{cfg: cfg, prog: prog, pkg: sp[0], fset: prog.Fset, initPkg: map[string]bool{}, intr: map[string]intrinsic{}}
	g.sizes = types.SizesFor("gc", "amd64")
	g.errorType = types.Universe.Lookup("error").Type()
	if ep := prog.ImportedPackage("errors"); ep != nil {
		g.errorStringType = ep.Type("errorString").Type()
	}
	for _, p := range prog.AllPackages() {
		path := p.Pkg.Path()
		if strings.HasPrefix(path, "github.com/pion/stun/") || path == "io" {
			g.initPkg[path] = true
		}
	}
	g.registerIntrinsics()
	g.astFiles = map[string]*ast.File{}
	for _, f := range pkgs[0].Syntax {
		g.astFiles[filepath.Clean(g.fset.Position(f.Pos()).Filename)] = f
	}
	if cfg.Escapes {
		if g.esc, err = g.loadEscapes(); err != nil {
			return nil, err
		}
	}
	g.LoadTime = time.Since(t0)
	return g, nil
}

func (g *Engine) lookupIntrinsic(fn *ssa.Function, name string) intrinsic {
	if h, ok := g.intr[name]; ok {
		return h
	}
	// harness API: <pkg>.vxName
	if fn.Pkg != nil && fn.Parent() == nil {
		n := fn.Name()
		if strings.HasPrefix(n, "vx") && fn.Signature.Recv() == nil {
			if h, ok := g.intr["vx:"+n]; ok {
				return h
			}
		}
	}
	// init functions of packages we do not initialise
	if fn.Name() == "init" && fn.Pkg != nil && fn.Signature.Recv() == nil && fn.Parent() == nil {
		if !g.initPkg[fn.Pkg.Pkg.Path()] {
			return func(e *Exec, fn *ssa.Function, args []Value, pos token.Pos) Value { return nil }
		}
	}
	return nil
}

// ---------- results ----------

type ReplayVal struct {
	Kind string `json:"k"`
	W    int    `json:"w,omitempty"`
	V    string `json:"v,omitempty"`
	N    int64  `json:"n,omitempty"`
	C    int64  `json:"c,omitempty"`
	B    string `json:"b,omitempty"`
}

type inputRec struct {
	kind  string
	terms []*Term
	arr   string
	w     int
}

type ViolationOut struct {
	Kind   string `json:"kind"`
	Label  string `json:"label"`
	Pos    string `json:"pos"`
	Replay string `json:"replay"`
	Path   string `json:"path"`
}

type Result struct {
	Harness      string         `json:"harness"`
	Tags         string         `json:"tags"`
	Paths        int            `json:"paths"`
	PathEnds     map[string]int `json:"path_ends"`
	Instrs       int            `json:"instrs"`
	Queries      int            `json:"queries"`
	BranchQ      int            `json:"branch_queries"`
	AssertQ      int            `json:"assert_queries"`
	SolverS      float64        `json:"solver_s"`
	WorstQueryS  float64        `json:"worst_query_s"`
	WallS        float64        `json:"wall_s"`
	LoadS        float64        `json:"load_s"`
	Unknowns     int            `json:"unknowns"`
	SolverErrors int            `json:"solver_errors"`
	Cuts         int            `json:"unwind_cuts"`
	Asserts      map[string]int `json:"asserts"`
	Reach        []string       `json:"reach"`
	Violations   []ViolationOut `json:"violations"`
	Unsupported  string         `json:"unsupported,omitempty"`
	Notes        []string       `json:"notes,omitempty"`
	Funcs        []string       `json:"functions_encoded"`
	Unwind       int            `json:"unwind"`
	UnwindCut    bool           `json:"unwind_is_assumption"`
	Inconclusive bool           `json:"inconclusive"`
	Solver       string         `json:"solver"`
	LockLog      []string       `json:"lock_log,omitempty"`
	EscapeCmd    string         `json:"escape_analysis_cmd,omitempty"`
	EscapeSites  int            `json:"escape_heap_sites,omitempty"`
}

// RunHarness explores every path of harness function `name`.
func (g *Engine) RunHarness(name string) *Result {
	t0 := time.Now()
	fn := g.pkg.Func(name)
	res := &Result{Harness: name, Tags: g.cfg.Tags, PathEnds: map[string]int{}, Asserts: map[string]int{}, LoadS: g.LoadTime.Seconds(),
		Solver: strings.Join(solverArgv(), " ")}
	if g.esc != nil {
		res.EscapeCmd, res.EscapeSites = g.esc.cmd, g.esc.nmsg
	}
	if fn == nil {
		res.Unsupported = "no such harness function: " + name
		res.Inconclusive = true
		return res
	}
	var mu sync.Mutex
	cond := sync.NewCond(&mu)
	work := [][]int{nil}
	active := 0
	stop := false
	reach := map[string]bool{}
	funcs := map[string]bool{}
	lock := map[string]bool{}
	seenViol := map[string]bool{}
	nw := g.cfg.Workers
	if nw < 1 {
		nw = 1
	}
	var wg sync.WaitGroup
	for w := 0; w < nw; w++ {
		wg.Add(1)
		go func(w int) {
			defer wg.Done()
			sol := NewSolver(g.cfg.TimeoutMs, g.cfg.Seed)
			defer func() {
				mu.Lock()
				res.Queries += sol.Queries
				res.SolverS += sol.Time.Seconds()
				if s := sol.Worst.Seconds(); s > res.WorstQueryS {
					res.WorstQueryS = s
				}
				res.SolverErrors += sol.Errors
				mu.Unlock()
				sol.Close()
			}()
			for {
				mu.Lock()
				for len(work) == 0 && active > 0 && !stop {
					cond.Wait()
				}
				if stop || (len(work) == 0 && active == 0) {
					mu.Unlock()
					cond.Broadcast()
					return
				}
				pre := work[len(work)-1]
				work = work[:len(work)-1]
				active++
				mu.Unlock()

				e, why, unsup := g.runPath(fn, pre, sol)

				mu.Lock()
				active--
				res.Paths++
				res.PathEnds[why]++
				res.Instrs += e.instrs
				res.BranchQ += e.nBranchQ
				res.AssertQ += e.nAssertQ
				res.Unknowns += e.unknowns
				res.Cuts += e.cuts
				for k, v := range e.asserts {
					res.Asserts[k] += v
				}
				for k := range e.reach {
					reach[k] = true
				}
				for k := range e.funcs {
					funcs[k] = true
				}
				for _, l := range e.lockLog {
					lock[l] = true
				}
				for _, n := range e.notes {
					if len(res.Notes) < 50 {
						res.Notes = append(res.Notes, n)
					}
				}
				if why == "unwind-insufficient" || why == "budget" {
					res.Inconclusive = true
				}
				if unsup != "" && res.Unsupported == "" {
					res.Unsupported = unsup
					res.Inconclusive = true
					stop = true
				}
				for _, v := range e.viol {
					key := v.Kind + "|" + v.Label + "|" + v.Pos
					if seenViol[key] {
						continue
					}
					seenViol[key] = true
					vo := ViolationOut{Kind: v.Kind, Label: v.Label, Pos: v.Pos, Path: fmt.Sprint(v.Path)}
					vo.Replay = g.writeReplay(name, v, len(res.Violations))
					res.Violations = append(res.Violations, vo)
					if v.Kind == "recursion" || v.Kind == "nontermination" {
						// the run crashes or hangs on this input: one counterexample decides, and exploring the
						// remaining paths of a tree that recurses or loops without bound can take half an hour
						stop = true
					}
				}
				if g.cfg.MaxViol > 0 && len(res.Violations) >= g.cfg.MaxViol {
					stop = true
				}
				if g.cfg.MaxPaths > 0 && res.Paths >= g.cfg.MaxPaths {
					stop = true
					res.Inconclusive = true
					res.Notes = append(res.Notes, "path budget exhausted")
				}
				work = append(work, e.work...)
				mu.Unlock()
				cond.Broadcast()
			}
		}(w)
	}
	wg.Wait()
	if res.Unknowns > 0 || res.SolverErrors > 0 {
		res.Inconclusive = true
	}
	for k := range reach {
		res.Reach = append(res.Reach, k)
	}
	sort.Strings(res.Reach)
	for k := range funcs {
		res.Funcs = append(res.Funcs, k)
	}
	sort.Strings(res.Funcs)
	for k := range lock {
		res.LockLog = append(res.LockLog, k)
	}
	sort.Strings(res.LockLog)
	res.Unwind = g.cfg.Unwind
	res.UnwindCut = g.cfg.UnwindCut
	res.WallS = time.Since(t0).Seconds()
	return res
}

func (g *Engine) newExec(pre []int, sol *Solver) *Exec {
	return &Exec{eng: g, tb: newTB(), sol: sol, prefix: pre, globals: map[*ssa.Global]*Obj{}, inited: map[*ssa.Package]bool{},
		reach: map[string]bool{}, asserts: map[string]int{}, funcs: map[string]bool{}, mutex: map[string]*mutexState{},
		recCount: map[*ssa.Function]int{}, records: map[string]Value{}, pools: map[string][]Value{}, ufApps: map[string][]*ufApp{}, pdoms: map[*ssa.Function][]int{},
		unwind: g.cfg.Unwind, unwindCut: g.cfg.UnwindCut, recLimit: g.cfg.RecLimit}
}

func (g *Engine) runPath(fn *ssa.Function, pre []int, sol *Solver) (e *Exec, why string, unsup string) {
	e = g.newExec(pre, sol)
	why = "ok"
	defer func() {
		if r := recover(); r != nil {
			switch x := r.(type) {
			case pathEnd:
				why = x.why
			case unsupported:
				why = "unsupported"
				unsup = x.what
			case specAbort:
				why = "unsupported"
				unsup = "stray specAbort: " + x.why
			default:
				why = "engine-panic"
				unsup = fmt.Sprintf("engine panic: %v [%s]\n%s", r, strings.Join(e.stack, " > "), debug.Stack())
			}
		}
	}()
	e.runInits()
	e.callFunc(fn, nil, nil, token.NoPos)
	return
}

// runInits executes the package initialisers of the packages under test concretely.
func (e *Exec) runInits() {
	saved := e.unwind
	e.unwind = 1 << 30
	var paths []string
	for p := range e.eng.initPkg {
		paths = append(paths, p)
	}
	sort.Strings(paths)
	// dependencies first: errors, io, then the rest
	order := []string{}
	for _, p := range []string{"errors", "io"} {
		if e.eng.initPkg[p] {
			order = append(order, p)
		}
	}
	for _, p := range paths {
		if p != "errors" && p != "io" {
			order = append(order, p)
		}
	}
	for _, p := range order {
		for _, sp := range e.eng.prog.AllPackages() {
			if sp.Pkg.Path() == p {
				if init := sp.Func("init"); init != nil && init.Blocks != nil {
					e.callFunc(init, nil, nil, token.NoPos)
				}
			}
		}
	}
	e.unwind = saved
}

// ---------- model extraction / replay files ----------

func (e *Exec) extractModel(cond *Term) []ReplayVal {
	tb := e.tb
	base := func(extra []*Term) *Script {
		s := tb.NewScript()
		for _, p := range e.pc {
			s.Assert(p)
		}
		s.Assert(cond)
		for _, x := range extra {
			s.Assert(x)
		}
		e.ufConstraints(s)
		return s
	}
	var extra []*Term
	// minimise buffer capacities / lengths
	for _, in := range e.inputs {
		if in.kind != "bytes" && in.kind != "string" {
			continue
		}
		for _, lt := range in.terms {
			if lt.isConst() {
				continue
			}
			for _, bound := range []uint64{24, 64, 256, 2048} {
				c := tb.Cmp(OSle, lt, tb.K(64, bound))
				s := base(append(extra, c))
				if r, _ := e.sol.Check(s.String(), nil); r == "sat" {
					extra = append(extra, c)
					break
				}
			}
		}
	}
	s := base(extra)
	var names []string
	for _, in := range e.inputs {
		for _, t := range in.terms {
			names = append(names, s.ref(t))
		}
	}
	r, vals := e.sol.Check(s.String(), names)
	if r != "sat" {
		e.notes = append(e.notes, "model extraction: first query returned "+r)
		if p := os.Getenv("GOSYMX_DUMP"); p != "" {
			os.WriteFile(p, []byte(s.String()), 0o644)
		}
		return nil
	}
	// pin every scalar input to its first-model value, then fetch array contents
	var sel []string
	for _, in := range e.inputs {
		for _, t := range in.terms {
			if t.isConst() || t.w > 64 {
				continue
			}
			u, _ := valueBits(vals[s.ref(t)])
			if t.w == 0 {
				extra = append(extra, tb.Cmp(OEq, t, tb.Bool(u == 1)))
			} else {
				extra = append(extra, tb.Cmp(OEq, t, tb.K(t.w, u)))
			}
		}
		if in.kind == "bytes" || in.kind == "string" {
			c, _ := valueBits(vals[s.ref(in.terms[len(in.terms)-1])])
			if in.terms[len(in.terms)-1].isConst() {
				c = in.terms[len(in.terms)-1].k
			}
			if c > 200000 {
				c = 200000
			}
			for i := uint64(0); i < c; i++ {
				sel = append(sel, fmt.Sprintf("(select %s (_ bv%d 64))", in.arr, i))
			}
		}
	}
	s = base(extra)
	names = names[:0]
	for _, in := range e.inputs {
		for _, t := range in.terms {
			names = append(names, s.ref(t))
		}
	}
	r, vals = e.sol.Check(s.String(), append(append([]string{}, names...), sel...))
	if r != "sat" {
		e.notes = append(e.notes, "model extraction: second query returned "+r)
		return nil
	}
	get := func(t *Term) (uint64, []byte) {
		if t.isConst() {
			return t.k, nil
		}
		return valueBits(vals[s.ref(t)])
	}
	var out []ReplayVal
	for _, in := range e.inputs {
		switch in.kind {
		case "bytes", "string":
			n, _ := get(in.terms[0])
			c, _ := get(in.terms[len(in.terms)-1])
			sz := c
			if sz > 200000 {
				sz = 200000
			}
			bs := make([]byte, sz)
			for i := uint64(0); i < sz; i++ {
				if v, ok := vals[fmt.Sprintf("(select %s (_ bv%d 64))", in.arr, i)]; ok {
					u, _ := valueBits(v)
					bs[i] = byte(u)
				}
			}
			out = append(out, ReplayVal{Kind: in.kind, N: int64(n), C: int64(c), B: hex.EncodeToString(bs)})
		case "cap":
			// internal (append growth) - not consumed by the native replay
		default:
			u, bs := get(in.terms[0])
			rv := ReplayVal{Kind: in.kind, W: in.w, V: fmt.Sprint(u)}
			if in.w > 64 {
				rv.B = hex.EncodeToString(bs)
			}
			out = append(out, rv)
		}
	}
	return out
}

type ReplayFile struct {
	Harness string      `json:"harness"`
	Tags    string      `json:"tags"`
	Kind    string      `json:"kind"`
	Label   string      `json:"label"`
	Pos     string      `json:"pos"`
	Values  []ReplayVal `json:"values"`
}

func (g *Engine) writeReplay(name string, v Violation, n int) string {
	if g.cfg.ReplayDir == "" {
		return ""
	}
	os.MkdirAll(g.cfg.ReplayDir, 0o755)
	tag := g.cfg.Tags
	if tag == "" {
		tag = "release"
	}
	p := filepath.Join(g.cfg.ReplayDir, fmt.Sprintf("%s-%s-%d.json", name, tag, n))
	b, _ := json.MarshalIndent(ReplayFile{Harness: name, Tags: g.cfg.Tags, Kind: v.Kind, Label: v.Label, Pos: v.Pos, Values: v.Values}, "", " ")
	os.WriteFile(p, b, 0o644)
	return p
}
