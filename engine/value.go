// Values and memory objects of the symbolic executor.
package main

import (
	"fmt"
	"go/types"

	"golang.org/x/tools/go/ssa"
)

type Value interface{}

// StructV / ArrV are immutable (copy on write).
type StructV []Value
type ArrV []Value
type Tuple []Value

// BArr: a standalone [N]byte array represented as a byte object.
type BArr struct {
	b *BObj
	n int
}

// Obj is a heap/stack cell holding one Value tree.
type Obj struct {
	id     int
	v      Value
	typ    types.Type
	tag    string
	shared string // name of the package-level variable this object is the storage of ("" otherwise)
}

// Ptr points into an Obj (path of field/element indices) or, when b != nil,
// at a byte of a byte object.
type Ptr struct {
	obj  *Obj
	path []int
	b    *BObj
	idx  *Term
	// symbolic index into an array that lives at obj/path (array of scalars)
	sidx *Term
}

// Slice: byte slices are backed by a BObj (b) or by an array inside an Obj
// (c, cpath); slices of other element types are always backed by an Obj
// holding an ArrV.
type Slice struct {
	b     *BObj
	c     *Obj
	cpath []int
	off   *Term
	len   *Term
	cap   *Term
	elem  types.Type
}

func (s *Slice) isNil() bool { return s == nil || (s.b == nil && s.c == nil) }

// Str: strings are immutable byte objects.
type Str struct {
	b   *BObj
	off *Term
	len *Term
}

type Iface struct {
	t types.Type // dynamic type; nil = nil interface
	v Value
}

type Closure struct {
	fn   *ssa.Function
	free []Value
	// bound method closure
	recv Value
}

// Builtin-implemented function value (engine-provided).
type Native struct {
	name string
	fn   func(e *Exec, args []Value) Value
}

type MapV struct {
	id    int
	slots []*mapSlot
	kt    types.Type
	vt    types.Type
	isNil bool
}

type mapSlot struct {
	used *Term // Bool
	key  Value
	val  Value
}

type ChanV struct {
	id     int
	closed bool
	ticker bool // the C of a time.Ticker (join model): a tick may be pending at any time
}

// ---------- byte objects ----------

type logEntry struct {
	store    bool
	idx, val *Term // single store
	d, n, so *Term // range copy: [d, d+n) <- src[so + (i-d)]
	src      *BObj
	srclog   int
}

// BObj is a byte array with a write log over a base content.
type BObj struct {
	id     int
	base   string // SMT array constant; "" otherwise
	conc   []byte // concrete base (when base == "" and conc != nil); zeros otherwise
	log    []logEntry
	size   *Term // allocation size (cap of the original slice)
	max    int   // concrete upper bound for size if known, else -1
	ro     bool  // string data
	tag    string
	shared string // name of the package-level variable whose storage this is ("" otherwise)
}

const maxReadDepth = 400

func (e *Exec) bread(o *BObj, upto int, i *Term) *Term {
	return e.breadS(o, upto, i, nil)
}

// breadS: seen = index terms of newer single stores already on the ite chain
// (an older store to the syntactically same index is shadowed).
func (e *Exec) breadS(o *BObj, upto int, i *Term, seen []*Term) *Term {
	tb := e.tb
	for k := upto - 1; k >= 0; k-- {
		en := &o.log[k]
		if en.store {
			shadowed := false
			for _, sidx := range seen {
				if sidx == en.idx {
					shadowed = true
					break
				}
			}
			if shadowed {
				continue
			}
			eq := tb.Cmp(OEq, i, en.idx)
			if eq.isTrue() {
				return en.val
			}
			if eq.isFalse() {
				continue
			}
			return tb.Ite(eq, en.val, e.breadS(o, k, i, append(seen[:len(seen):len(seen)], en.idx)))
		}
		// i in [d, d+n)  <=>  (i - d) <u n   (d, n >= 0 and d+n does not overflow: they describe a slice)
		in := tb.Cmp(OUlt, tb.Bin(OSub, i, en.d), en.n)
		if in.isFalse() {
			continue
		}
		sv := e.bread(en.src, en.srclog, tb.Bin(OAdd, en.so, tb.Bin(OSub, i, en.d)))
		if in.isTrue() {
			return sv
		}
		return tb.Ite(in, sv, e.breadS(o, k, i, seen))
	}
	if o.base != "" {
		return tb.Select(o.base, i)
	}
	if o.conc != nil {
		if i.isConst() {
			if i.k < uint64(len(o.conc)) {
				return tb.K(8, uint64(o.conc[i.k]))
			}
			return tb.K(8, 0)
		}
		// symbolic index into concrete bytes: ite chain (small objects only)
		if len(o.conc) > 512 {
			panic(unsupported{"symbolic index into large concrete byte object"})
		}
		r := tb.K(8, 0)
		for j := len(o.conc) - 1; j >= 0; j-- {
			r = tb.Ite(tb.Cmp(OEq, i, tb.K(64, uint64(j))), tb.K(8, uint64(o.conc[j])), r)
		}
		return r
	}
	return tb.K(8, 0)
}

func (e *Exec) bstore(o *BObj, i, v *Term) {
	if o.ro {
		panic(unsupported{"store to read-only byte object"})
	}
	if v.w != 8 {
		panic(fmt.Sprintf("bstore width %d", v.w))
	}
	e.sharedWrite(o.shared)
	o.log = append(o.log, logEntry{store: true, idx: i, val: v})
}

func (e *Exec) bcopy(dst *BObj, d *Term, src *BObj, so *Term, n *Term) {
	if dst.ro {
		panic(unsupported{"copy to read-only byte object"})
	}
	if n.isConst() && n.k == 0 {
		return
	}
	e.sharedWrite(dst.shared)
	// very small concrete copies become single stores
	if n.isConst() && n.k <= 2 {
		vals := make([]*Term, n.k)
		for j := range vals {
			vals[j] = e.bread(src, len(src.log), e.tb.Bin(OAdd, so, e.tb.K(64, uint64(j))))
		}
		for j, v := range vals {
			dst.log = append(dst.log, logEntry{store: true, idx: e.tb.Bin(OAdd, d, e.tb.K(64, uint64(j))), val: v})
		}
		return
	}
	dst.log = append(dst.log, logEntry{d: d, n: n, so: so, src: src, srclog: len(src.log)})
}

func (e *Exec) newBObj(size *Term, max int, tag string) *BObj {
	e.nobj++
	return &BObj{id: e.nobj, size: size, max: max, tag: tag}
}

func (e *Exec) newObj(v Value, t types.Type, tag string) *Obj {
	e.nobj++
	return &Obj{id: e.nobj, v: v, typ: t, tag: tag}
}

func (e *Exec) concBytes(bs []byte, ro bool) *BObj {
	o := e.newBObj(e.tb.K(64, uint64(len(bs))), len(bs), "const")
	o.conc = bs
	o.ro = ro
	return o
}

func (e *Exec) mkStr(s string) *Str {
	if s == "" {
		return &Str{b: nil, off: e.tb.K(64, 0), len: e.tb.K(64, 0)}
	}
	return &Str{b: e.concBytes([]byte(s), true), off: e.tb.K(64, 0), len: e.tb.K(64, uint64(len(s)))}
}

// concStr returns the Go string if s is fully concrete.
func (e *Exec) concStr(s *Str) (string, bool) {
	if !s.len.isConst() || !s.off.isConst() {
		return "", false
	}
	n := int(s.len.k)
	if n == 0 {
		return "", true
	}
	bs := make([]byte, n)
	for i := 0; i < n; i++ {
		t := e.bread(s.b, len(s.b.log), e.tb.K(64, s.off.k+uint64(i)))
		if !t.isConst() {
			return "", false
		}
		bs[i] = byte(t.k)
	}
	return string(bs), true
}

// ---------- tree get/set ----------

func getPath(v Value, path []int) Value {
	for _, p := range path {
		switch x := v.(type) {
		case StructV:
			v = x[p]
		case ArrV:
			v = x[p]
		default:
			panic(fmt.Sprintf("getPath through %T", v))
		}
	}
	return v
}

func setPath(v Value, path []int, nv Value) Value {
	if len(path) == 0 {
		return nv
	}
	switch x := v.(type) {
	case StructV:
		c := make(StructV, len(x))
		copy(c, x)
		c[path[0]] = setPath(x[path[0]], path[1:], nv)
		return c
	case ArrV:
		c := make(ArrV, len(x))
		copy(c, x)
		c[path[0]] = setPath(x[path[0]], path[1:], nv)
		return c
	}
	panic(fmt.Sprintf("setPath through %T", v))
}

func appendPath(p []int, i int) []int {
	r := make([]int, len(p)+1)
	copy(r, p)
	r[len(p)] = i
	return r
}

// ---------- types ----------

func bvWidth(t types.Type) int {
	switch b := t.Underlying().(type) {
	case *types.Basic:
		switch b.Kind() {
		case types.Bool, types.UntypedBool:
			return 0
		case types.Int8, types.Uint8:
			return 8
		case types.Int16, types.Uint16:
			return 16
		case types.Int32, types.Uint32, types.UntypedRune:
			return 32
		case types.Int, types.Uint, types.Int64, types.Uint64, types.Uintptr, types.UntypedInt:
			return 64
		}
	}
	return -1
}

func isSigned(t types.Type) bool {
	b, ok := t.Underlying().(*types.Basic)
	return ok && b.Info()&types.IsInteger != 0 && b.Info()&types.IsUnsigned == 0
}

func isByteType(t types.Type) bool {
	b, ok := t.Underlying().(*types.Basic)
	return ok && (b.Kind() == types.Uint8 || b.Kind() == types.Int8)
}

func isStringType(t types.Type) bool {
	b, ok := t.Underlying().(*types.Basic)
	return ok && b.Info()&types.IsString != 0
}

func (e *Exec) zero(t types.Type) Value {
	switch u := t.Underlying().(type) {
	case *types.Basic:
		if u.Info()&types.IsString != 0 {
			return e.mkStr("")
		}
		if u.Kind() == types.UnsafePointer {
			return (*Ptr)(nil)
		}
		w := bvWidth(t)
		if w == 0 {
			return e.tb.False()
		}
		if w < 0 {
			if u.Info()&types.IsFloat != 0 {
				return FloatV(0)
			}
			panic(unsupported{"zero of basic type " + t.String()})
		}
		return e.tb.K(w, 0)
	case *types.Struct:
		s := make(StructV, u.NumFields())
		for i := range s {
			s[i] = e.zero(u.Field(i).Type())
		}
		return s
	case *types.Array:
		a := make(ArrV, u.Len())
		if u.Len() > 0 {
			z := e.zero(u.Elem())
			for i := range a {
				a[i] = z
			}
		}
		return a
	case *types.Slice:
		return &Slice{off: e.tb.K(64, 0), len: e.tb.K(64, 0), cap: e.tb.K(64, 0), elem: u.Elem()}
	case *types.Pointer:
		return (*Ptr)(nil)
	case *types.Interface:
		return Iface{}
	case *types.Map:
		return (*MapV)(nil)
	case *types.Chan:
		return (*ChanV)(nil)
	case *types.Signature:
		return (*Closure)(nil)
	case *types.Tuple:
		r := make(Tuple, u.Len())
		for i := range r {
			r[i] = e.zero(u.At(i).Type())
		}
		return r
	}
	panic(unsupported{"zero of type " + t.String()})
}

// FloatV: concrete floats only (never symbolic; appear in stdlib tables).
type FloatV float64

type unsupported struct{ what string }
