// Term DAG: hash-consed bit-vector / boolean terms with constant folding and
// an SMT-LIB2 printer that shares sub-terms through define-fun.
package main

import (
	"fmt"
	"sort"
	"strings"
)

type Op uint8

const (
	OConst Op = iota
	OVar
	OAdd
	OSub
	OMul
	OAnd
	OOr
	OXor
	ONotBV
	ONeg
	OShl
	OLshr
	OAshr
	OUdiv
	OUrem
	OSdiv
	OSrem
	OEq  // any sort -> bool
	OUlt // bool results
	OUle
	OSlt
	OSle
	ONot // bool
	OBAnd
	OBOr
	OIte
	OExtract // k = lo, w = width
	OZext
	OSext
	OConcat
	OSelect // name = array, a[0] = index (64 bit); result 8 bits
)

var opName = map[Op]string{
	OAdd: "bvadd", OSub: "bvsub", OMul: "bvmul", OAnd: "bvand", OOr: "bvor", OXor: "bvxor",
	ONotBV: "bvnot", ONeg: "bvneg", OShl: "bvshl", OLshr: "bvlshr", OAshr: "bvashr",
	OUdiv: "bvudiv", OUrem: "bvurem", OSdiv: "bvsdiv", OSrem: "bvsrem",
	OEq: "=", OUlt: "bvult", OUle: "bvule", OSlt: "bvslt", OSle: "bvsle",
	ONot: "not", OBAnd: "and", OBOr: "or", OIte: "ite", OConcat: "concat",
}

// Term is immutable. w == 0 means Bool.
type Term struct {
	op   Op
	w    int
	k    uint64 // constant value / extract low bit
	name string
	a    [3]*Term
	n    int
	id   int
	rlo  uint64 // unsigned value range [rlo, rhi] (w <= 64)
	rhi  uint64
}

type termKey struct {
	op         Op
	w          int
	k          uint64
	name       string
	a0, a1, a2 int
}

// TB is a term builder (one per explored path; not shared between goroutines).
type TB struct {
	tab   map[termKey]*Term
	next  int
	vars  []*Term // declaration order
	arrs  []string
	arrOK map[string]bool
	nsym  int
}

func newTB() *TB {
	return &TB{tab: map[termKey]*Term{}, arrOK: map[string]bool{}}
}

func mask(w int) uint64 {
	if w >= 64 {
		return ^uint64(0)
	}
	return (uint64(1) << uint(w)) - 1
}

func (b *TB) mk(t Term) *Term {
	k := termKey{op: t.op, w: t.w, k: t.k, name: t.name, a0: -1, a1: -1, a2: -1}
	if t.n > 0 {
		k.a0 = t.a[0].id
	}
	if t.n > 1 {
		k.a1 = t.a[1].id
	}
	if t.n > 2 {
		k.a2 = t.a[2].id
	}
	if x, ok := b.tab[k]; ok {
		return x
	}
	b.next++
	t.id = b.next
	p := &t
	p.rlo, p.rhi = rangeOf(p)
	b.tab[k] = p
	return p
}

func bitlen(v uint64) int {
	n := 0
	for v != 0 {
		n++
		v >>= 1
	}
	return n
}

// rangeOf computes a sound unsigned interval for the value of t (as a w-bit number).
func rangeOf(t *Term) (uint64, uint64) {
	w := t.w
	if w == 0 {
		if t.op == OConst {
			return t.k, t.k
		}
		return 0, 1
	}
	if w > 64 {
		return 0, ^uint64(0)
	}
	m := mask(w)
	full := func() (uint64, uint64) { return 0, m }
	a := func(i int) (uint64, uint64) { return t.a[i].rlo, t.a[i].rhi }
	nonneg := func(i int) bool { return t.a[i].w <= 64 && t.a[i].rhi < uint64(1)<<uint(t.a[i].w-1) }
	switch t.op {
	case OConst:
		return t.k, t.k
	case OVar:
		return full()
	case OSelect:
		return 0, 255
	case OZext:
		if t.a[0].w > 64 {
			return full()
		}
		return a(0)
	case OSext:
		if nonneg(0) {
			return a(0)
		}
		return full()
	case OExtract:
		if t.a[0].w <= 64 && t.k == 0 && t.a[0].rhi <= m {
			return a(0)
		}
		return full()
	case OConcat:
		if t.a[0].w > 64 || t.a[1].w > 64 {
			return full()
		}
		lw := uint(t.a[1].w)
		return t.a[0].rlo<<lw + t.a[1].rlo, t.a[0].rhi<<lw + t.a[1].rhi
	case OAdd:
		l0, h0 := a(0)
		l1, h1 := a(1)
		if h0+h1 >= h0 && h0+h1 <= m {
			return l0 + l1, h0 + h1
		}
		if t.a[1].isConst() && w > 1 && t.a[1].k >= uint64(1)<<uint(w-1) {
			c := (m - t.a[1].k) + 1 // subtracting c
			if l0 >= c {
				return l0 - c, h0 - c
			}
		}
		return full()
	case OSub:
		l0, h0 := a(0)
		l1, h1 := a(1)
		if l0 >= h1 {
			return l0 - h1, h0 - l1
		}
		return full()
	case OMul:
		l0, h0 := a(0)
		l1, h1 := a(1)
		if h1 == 0 || h0 <= m/h1 {
			return l0 * l1, h0 * h1
		}
		return full()
	case OShl:
		if t.a[1].isConst() && t.a[1].k < uint64(w) {
			c := uint(t.a[1].k)
			l0, h0 := a(0)
			if h0 <= m>>c {
				return l0 << c, h0 << c
			}
		}
		return full()
	case OLshr:
		if t.a[1].isConst() {
			if t.a[1].k >= uint64(w) {
				return 0, 0
			}
			c := uint(t.a[1].k)
			return t.a[0].rlo >> c, t.a[0].rhi >> c
		}
		return 0, t.a[0].rhi
	case OAshr:
		if nonneg(0) {
			if t.a[1].isConst() {
				c := t.a[1].k
				if c >= uint64(w) {
					return 0, 0
				}
				return t.a[0].rlo >> c, t.a[0].rhi >> c
			}
			return 0, t.a[0].rhi
		}
		return full()
	case OAnd:
		_, h0 := a(0)
		_, h1 := a(1)
		h := h0
		if h1 < h {
			h = h1
		}
		if t.a[1].isConst() {
			k := t.a[1].k
			if inv := (^k) & m; inv&(inv+1) == 0 { // k clears only low bits
				return t.a[0].rlo & k, t.a[0].rhi & k
			}
		}
		return 0, h
	case OOr, OXor:
		l0, h0 := a(0)
		l1, h1 := a(1)
		h := h0
		if h1 > h {
			h = h1
		}
		bl := bitlen(h)
		var hb uint64 = m
		if bl < 64 {
			hb = (uint64(1) << uint(bl)) - 1
		}
		if hb > m {
			hb = m
		}
		if t.op == OOr {
			l := l0
			if l1 > l {
				l = l1
			}
			return l, hb
		}
		return 0, hb
	case OIte:
		l1, h1 := a(1)
		l2, h2 := a(2)
		if l2 < l1 {
			l1 = l2
		}
		if h2 > h1 {
			h1 = h2
		}
		return l1, h1
	case OUdiv:
		if t.a[1].isConst() && t.a[1].k != 0 {
			return t.a[0].rlo / t.a[1].k, t.a[0].rhi / t.a[1].k
		}
		return full()
	case OUrem:
		if t.a[1].isConst() && t.a[1].k != 0 {
			h := t.a[0].rhi
			if t.a[1].k-1 < h {
				h = t.a[1].k - 1
			}
			return 0, h
		}
		return full()
	case OSdiv:
		if nonneg(0) && t.a[1].isConst() && nonneg(1) && t.a[1].k != 0 {
			return t.a[0].rlo / t.a[1].k, t.a[0].rhi / t.a[1].k
		}
		return full()
	case OSrem:
		if nonneg(0) && t.a[1].isConst() && nonneg(1) && t.a[1].k != 0 {
			h := t.a[0].rhi
			if t.a[1].k-1 < h {
				h = t.a[1].k - 1
			}
			return 0, h
		}
		return full()
	}
	return full()
}

func (b *TB) K(w int, v uint64) *Term {
	if w > 64 {
		panic("wide const")
	}
	return b.mk(Term{op: OConst, w: w, k: v & mask(w)})
}
func (b *TB) Bool(v bool) *Term {
	if v {
		return b.mk(Term{op: OConst, w: 0, k: 1})
	}
	return b.mk(Term{op: OConst, w: 0, k: 0})
}
func (b *TB) True() *Term  { return b.Bool(true) }
func (b *TB) False() *Term { return b.Bool(false) }

// Var creates (or returns) a named variable.
func (b *TB) Var(name string, w int) *Term {
	k := termKey{op: OVar, w: w, name: name, a0: -1, a1: -1, a2: -1}
	if x, ok := b.tab[k]; ok {
		return x
	}
	t := b.mk(Term{op: OVar, w: w, name: name})
	b.vars = append(b.vars, t)
	return t
}

// Fresh creates a new variable with a deterministic name.
func (b *TB) Fresh(prefix string, w int) *Term {
	b.nsym++
	return b.Var(fmt.Sprintf("%s%d", prefix, b.nsym), w)
}

// FreshArr declares a new (BitVec 64 -> BitVec 8) array constant.
func (b *TB) FreshArr(prefix string) string {
	b.nsym++
	n := fmt.Sprintf("%s%d", prefix, b.nsym)
	b.arrs = append(b.arrs, n)
	b.arrOK[n] = true
	return n
}

func (t *Term) isConst() bool { return t.op == OConst }
func (t *Term) isTrue() bool  { return t.op == OConst && t.w == 0 && t.k == 1 }
func (t *Term) isFalse() bool { return t.op == OConst && t.w == 0 && t.k == 0 }

func sx(v uint64, w int) int64 {
	if w >= 64 {
		return int64(v)
	}
	sh := uint(64 - w)
	return int64(v<<sh) >> sh
}
func (t *Term) sval() int64 { return sx(t.k, t.w) }

func (b *TB) un(op Op, x *Term) *Term {
	if x.isConst() {
		switch op {
		case ONotBV:
			return b.K(x.w, ^x.k)
		case ONeg:
			return b.K(x.w, -x.k)
		}
	}
	if x.op == op { // double negation
		return x.a[0]
	}
	return b.mk(Term{op: op, w: x.w, a: [3]*Term{x}, n: 1})
}

// splitConst views t as base + k (base nil when t is a constant).
func splitConst(t *Term) (*Term, uint64) {
	if t.isConst() {
		return nil, t.k
	}
	if t.op == OAdd && t.a[1].isConst() {
		return t.a[0], t.a[1].k
	}
	return t, 0
}

func log2(v uint64) int {
	if v == 0 || v&(v-1) != 0 {
		return -1
	}
	n := 0
	for v > 1 {
		v >>= 1
		n++
	}
	return n
}

// Bin builds an arithmetic/bitwise binary term of x's width.
func (b *TB) Bin(op Op, x, y *Term) *Term {
	if x.w != y.w {
		panic(fmt.Sprintf("width mismatch %d %d op %v", x.w, y.w, op))
	}
	w := x.w
	if x.isConst() && y.isConst() {
		a, c := x.k, y.k
		switch op {
		case OAdd:
			return b.K(w, a+c)
		case OSub:
			return b.K(w, a-c)
		case OMul:
			return b.K(w, a*c)
		case OAnd:
			return b.K(w, a&c)
		case OOr:
			return b.K(w, a|c)
		case OXor:
			return b.K(w, a^c)
		case OShl:
			if c >= uint64(w) {
				return b.K(w, 0)
			}
			return b.K(w, a<<c)
		case OLshr:
			if c >= uint64(w) {
				return b.K(w, 0)
			}
			return b.K(w, a>>c)
		case OAshr:
			if c >= uint64(w) {
				c = uint64(w - 1)
			}
			return b.K(w, uint64(sx(a, w)>>c))
		case OUdiv:
			if c != 0 {
				return b.K(w, a/c)
			}
		case OUrem:
			if c != 0 {
				return b.K(w, a%c)
			}
		case OSdiv:
			if c != 0 && !(sx(a, w) == -1<<63 && sx(c, w) == -1) {
				return b.K(w, uint64(sx(a, w)/sx(c, w)))
			}
		case OSrem:
			if c != 0 && !(sx(a, w) == -1<<63 && sx(c, w) == -1) {
				return b.K(w, uint64(sx(a, w)%sx(c, w)))
			}
		}
	}
	// canonical order for commutative ops: constant on the right
	switch op {
	case OAdd, OMul, OAnd, OOr, OXor:
		if x.isConst() && !y.isConst() {
			x, y = y, x
		}
	}
	if y.isConst() {
		c := y.k
		switch op {
		case OAdd, OSub, OOr, OXor, OShl, OLshr, OAshr:
			if c == 0 {
				return x
			}
		case OAnd:
			if c == 0 {
				return y
			}
			if c == mask(w) {
				return x
			}
			if c&(c+1) == 0 && x.rhi <= c { // low mask covering the whole range of x
				return x
			}
		case OMul:
			if c == 0 {
				return y
			}
			if c == 1 {
				return x
			}
			if k := log2(c); k > 0 {
				return b.Bin(OShl, x, b.K(w, uint64(k)))
			}
		case OUdiv:
			if c == 1 {
				return x
			}
			if k := log2(c); k > 0 {
				return b.Bin(OLshr, x, b.K(w, uint64(k)))
			}
		case OUrem:
			if k := log2(c); k >= 0 {
				return b.Bin(OAnd, x, b.K(w, c-1))
			}
		case OSdiv:
			if c == 1 {
				return x
			}
			if k := log2(c); k > 0 && k < w-1 {
				sign := b.Bin(OAshr, x, b.K(w, uint64(w-1)))
				adj := b.Bin(OAdd, x, b.Bin(OAnd, sign, b.K(w, c-1)))
				return b.Bin(OAshr, adj, b.K(w, uint64(k)))
			}
		case OSrem:
			if k := log2(c); k > 0 && k < w-1 {
				// x - (x/c)*c
				q := b.Bin(OSdiv, x, y)
				return b.Bin(OSub, x, b.Bin(OShl, q, b.K(w, uint64(k))))
			}
		}
		// (x + c1) + c2
		if op == OAdd && x.op == OAdd && x.a[1].isConst() {
			return b.Bin(OAdd, x.a[0], b.K(w, x.a[1].k+c))
		}
		if op == OSub {
			return b.Bin(OAdd, x, b.K(w, -c))
		}
		// shifts of a zero-extended value by >= its source width etc. are left to the solver
	}
	if x == y {
		switch op {
		case OSub, OXor:
			return b.K(w, 0)
		case OAnd, OOr:
			return x
		}
	}
	if op == OSub {
		// (base + k1) - (base + k2) = k1 - k2 ; (p + q) - p = q
		xb, xk := splitConst(x)
		yb, yk := splitConst(y)
		if xb == yb {
			return b.K(w, xk-yk)
		}
		if xb != nil && xb.op == OAdd && !xb.a[1].isConst() {
			if xb.a[0] == yb {
				return b.Bin(OAdd, xb.a[1], b.K(w, xk-yk))
			}
			if xb.a[1] == yb {
				return b.Bin(OAdd, xb.a[0], b.K(w, xk-yk))
			}
		}
		if yb != nil && yb.op == OAdd && !yb.a[1].isConst() && xb != nil {
			if yb.a[0] == xb {
				return b.Bin(OAdd, b.un(ONeg, yb.a[1]), b.K(w, xk-yk))
			}
			if yb.a[1] == xb {
				return b.Bin(OAdd, b.un(ONeg, yb.a[0]), b.K(w, xk-yk))
			}
		}
		// x - (y' - z) etc. are left alone
	}
	if op == OAdd && !y.isConst() {
		// (p - q) + q = p
		if x.op == OSub && x.a[1] == y {
			return x.a[0]
		}
		if y.op == OSub && y.a[1] == x {
			return y.a[0]
		}
	}
	// ite lifting over constants: (ite c k1 k2) op k
	if y.isConst() && x.op == OIte && x.a[1].isConst() && x.a[2].isConst() {
		return b.Ite(x.a[0], b.Bin(op, x.a[1], y), b.Bin(op, x.a[2], y))
	}
	return b.mk(Term{op: op, w: w, a: [3]*Term{x, y}, n: 2})
}

// Cmp builds a boolean comparison.
func (b *TB) Cmp(op Op, x, y *Term) *Term {
	if x.w != y.w {
		panic(fmt.Sprintf("cmp width mismatch %d %d", x.w, y.w))
	}
	w := x.w
	if x.isConst() && y.isConst() {
		switch op {
		case OEq:
			return b.Bool(x.k == y.k)
		case OUlt:
			return b.Bool(x.k < y.k)
		case OUle:
			return b.Bool(x.k <= y.k)
		case OSlt:
			return b.Bool(sx(x.k, w) < sx(y.k, w))
		case OSle:
			return b.Bool(sx(x.k, w) <= sx(y.k, w))
		}
	}
	if x == y {
		switch op {
		case OEq, OUle, OSle:
			return b.True()
		case OUlt, OSlt:
			return b.False()
		}
	}
	if w > 0 && w <= 64 {
		sameSign := func() bool {
			h := uint64(1) << uint(w-1)
			return (x.rhi < h && y.rhi < h) || (x.rlo >= h && y.rlo >= h)
		}
		switch op {
		case OEq:
			if x.rhi < y.rlo || y.rhi < x.rlo {
				return b.False()
			}
			// base + k1 == base + k2
			xb, xk := splitConst(x)
			yb, yk := splitConst(y)
			if xb != nil && xb == yb {
				return b.Bool(xk == yk)
			}
		case OUlt:
			if x.rhi < y.rlo {
				return b.True()
			}
			if x.rlo >= y.rhi {
				return b.False()
			}
		case OUle:
			if x.rhi <= y.rlo {
				return b.True()
			}
			if x.rlo > y.rhi {
				return b.False()
			}
		case OSlt:
			if sameSign() {
				return b.Cmp(OUlt, x, y)
			}
		case OSle:
			if sameSign() {
				return b.Cmp(OUle, x, y)
			}
		}
	}
	if op == OEq {
		if w == 0 {
			if y.isConst() {
				if y.k == 1 {
					return x
				}
				return b.Not(x)
			}
			if x.isConst() {
				return b.Cmp(OEq, y, x)
			}
		}
		if x.isConst() && !y.isConst() {
			x, y = y, x
		}
		if !x.isConst() && !y.isConst() && x.id > y.id {
			x, y = y, x
		}
	}
	// ite lifting: (ite c k1 k2) cmp k
	if y.isConst() && x.op == OIte && x.a[1].isConst() && x.a[2].isConst() {
		return b.Ite(x.a[0], b.Cmp(op, x.a[1], y), b.Cmp(op, x.a[2], y))
	}
	if x.isConst() && y.op == OIte && y.a[1].isConst() && y.a[2].isConst() {
		return b.Ite(y.a[0], b.Cmp(op, x, y.a[1]), b.Cmp(op, x, y.a[2]))
	}
	// zext(x) == const that does not fit
	if op == OEq && y.isConst() && x.op == OZext {
		iw := x.a[0].w
		if y.k > mask(iw) {
			return b.False()
		}
		return b.Cmp(OEq, x.a[0], b.K(iw, y.k))
	}
	// unsigned trivialities
	if op == OUlt && y.isConst() && y.k == 0 {
		return b.False()
	}
	if op == OUle && x.isConst() && x.k == 0 {
		return b.True()
	}
	// signed compare of zero-extended values against small non-negative constants
	if (op == OSlt || op == OSle) && x.op == OZext && y.isConst() && sx(y.k, w) >= 0 && x.a[0].w < w {
		iw := x.a[0].w
		if y.k > mask(iw) {
			return b.True()
		}
		if op == OSlt {
			return b.Cmp(OUlt, x.a[0], b.K(iw, y.k))
		}
		return b.Cmp(OUle, x.a[0], b.K(iw, y.k))
	}
	if (op == OSlt || op == OSle) && y.op == OZext && x.isConst() && y.a[0].w < w {
		iw := y.a[0].w
		if sx(x.k, w) < 0 {
			return b.True()
		}
		if x.k > mask(iw) {
			return b.False()
		}
		if op == OSlt {
			return b.Cmp(OUlt, b.K(iw, x.k), y.a[0])
		}
		return b.Cmp(OUle, b.K(iw, x.k), y.a[0])
	}
	return b.mk(Term{op: op, w: 0, a: [3]*Term{x, y}, n: 2})
}

func (b *TB) Not(x *Term) *Term {
	if x.isConst() {
		return b.Bool(x.k == 0)
	}
	if x.op == ONot {
		return x.a[0]
	}
	return b.mk(Term{op: ONot, w: 0, a: [3]*Term{x}, n: 1})
}

func (b *TB) And(x, y *Term) *Term {
	if x.isConst() {
		if x.k == 0 {
			return x
		}
		return y
	}
	if y.isConst() {
		if y.k == 0 {
			return y
		}
		return x
	}
	if x == y {
		return x
	}
	if x.id > y.id {
		x, y = y, x
	}
	return b.mk(Term{op: OBAnd, w: 0, a: [3]*Term{x, y}, n: 2})
}

func (b *TB) Or(x, y *Term) *Term {
	if x.isConst() {
		if x.k == 1 {
			return x
		}
		return y
	}
	if y.isConst() {
		if y.k == 1 {
			return y
		}
		return x
	}
	if x == y {
		return x
	}
	if x.id > y.id {
		x, y = y, x
	}
	return b.mk(Term{op: OBOr, w: 0, a: [3]*Term{x, y}, n: 2})
}

func (b *TB) Implies(x, y *Term) *Term { return b.Or(b.Not(x), y) }

func (b *TB) Ite(c, x, y *Term) *Term {
	if c.isConst() {
		if c.k == 1 {
			return x
		}
		return y
	}
	if x == y {
		return x
	}
	if x.w != y.w {
		panic("ite width mismatch")
	}
	if x.w == 0 {
		if x.isConst() && y.isConst() {
			if x.k == 1 {
				return c
			}
			return b.Not(c)
		}
		if x.isTrue() {
			return b.Or(c, y)
		}
		if x.isFalse() {
			return b.And(b.Not(c), y)
		}
		if y.isTrue() {
			return b.Or(b.Not(c), x)
		}
		if y.isFalse() {
			return b.And(c, x)
		}
	}
	if c.op == ONot {
		return b.Ite(c.a[0], y, x)
	}
	return b.mk(Term{op: OIte, w: x.w, a: [3]*Term{c, x, y}, n: 3})
}

func (b *TB) Extract(x *Term, lo, w int) *Term {
	if lo == 0 && w == x.w {
		return x
	}
	if x.isConst() {
		return b.K(w, x.k>>uint(lo))
	}
	if x.op == OZext || x.op == OSext {
		iw := x.a[0].w
		if lo+w <= iw {
			return b.Extract(x.a[0], lo, w)
		}
		if x.op == OZext && lo >= iw {
			return b.K(w, 0)
		}
	}
	if x.op == OExtract {
		return b.Extract(x.a[0], int(x.k)+lo, w)
	}
	if x.op == OConcat {
		lw := x.a[1].w
		if lo+w <= lw {
			return b.Extract(x.a[1], lo, w)
		}
		if lo >= lw {
			return b.Extract(x.a[0], lo-lw, w)
		}
	}
	if x.op == OIte && x.a[1].isConst() && x.a[2].isConst() {
		return b.Ite(x.a[0], b.Extract(x.a[1], lo, w), b.Extract(x.a[2], lo, w))
	}
	return b.mk(Term{op: OExtract, w: w, k: uint64(lo), a: [3]*Term{x}, n: 1})
}

// Conv converts to width w (truncate / zero- / sign-extend).
func (b *TB) Conv(x *Term, w int, signed bool) *Term {
	if x.w == w {
		return x
	}
	if x.w == 0 || w == 0 {
		panic("conv bool")
	}
	if w < x.w {
		return b.Extract(x, 0, w)
	}
	if x.isConst() {
		if signed {
			return b.K(w, uint64(sx(x.k, x.w)))
		}
		return b.K(w, x.k)
	}
	if x.op == OIte && x.a[1].isConst() && x.a[2].isConst() {
		return b.Ite(x.a[0], b.Conv(x.a[1], w, signed), b.Conv(x.a[2], w, signed))
	}
	// widening a truncation of a value that fits: int(uint32(v)) == v
	if x.op == OExtract && x.k == 0 && x.a[0].w == w && w <= 64 {
		in := x.a[0]
		if (!signed && in.rhi <= mask(x.w)) || (signed && x.w > 1 && in.rhi < uint64(1)<<uint(x.w-1)) {
			return in
		}
	}
	if signed && x.w <= 64 && x.w > 1 && x.rhi < uint64(1)<<uint(x.w-1) {
		signed = false // provably non-negative: zero-extend (canonical form)
	}
	if !signed && x.op == OZext {
		return b.Conv(x.a[0], w, false)
	}
	if signed && x.op == OZext { // already non-negative
		return b.Conv(x.a[0], w, false)
	}
	op := OZext
	if signed {
		op = OSext
	}
	return b.mk(Term{op: op, w: w, a: [3]*Term{x}, n: 1})
}

func (b *TB) Concat(hi, lo *Term) *Term {
	w := hi.w + lo.w
	if hi.isConst() && lo.isConst() && w <= 64 {
		return b.K(w, hi.k<<uint(lo.w)|lo.k)
	}
	if w > 64 && !(hi.op != OConst && lo.op != OConst) {
		// wide constants are not representable; build via vars only
	}
	return b.mk(Term{op: OConcat, w: w, a: [3]*Term{hi, lo}, n: 2})
}

func (b *TB) Select(arr string, idx *Term) *Term {
	if !b.arrOK[arr] {
		panic("select on undeclared array " + arr)
	}
	return b.mk(Term{op: OSelect, w: 8, name: arr, a: [3]*Term{idx}, n: 1})
}

// ---------- printing ----------

func (t *Term) leaf() string {
	switch t.op {
	case OConst:
		if t.w == 0 {
			if t.k == 1 {
				return "true"
			}
			return "false"
		}
		return fmt.Sprintf("(_ bv%d %d)", t.k, t.w)
	case OVar:
		return t.name
	}
	return ""
}

func sortOf(w int) string {
	if w == 0 {
		return "Bool"
	}
	return fmt.Sprintf("(_ BitVec %d)", w)
}

// Script renders declarations + definitions for everything reachable from
// roots, and returns a name for each root.
type Script struct {
	sb    strings.Builder
	names map[*Term]string
	tb    *TB
	used  map[string]bool // variables referenced so far
}

func (b *TB) NewScript() *Script {
	return &Script{names: map[*Term]string{}, tb: b, used: map[string]bool{}}
}

func (s *Script) ref(t *Term) string {
	if l := t.leaf(); l != "" {
		if t.op == OVar {
			s.used[t.name] = true
		}
		return l
	}
	if n, ok := s.names[t]; ok {
		return n
	}
	// iterative post-order
	type fr struct {
		t *Term
		i int
	}
	st := []fr{{t, 0}}
	for len(st) > 0 {
		f := &st[len(st)-1]
		if f.i < f.t.n {
			c := f.t.a[f.i]
			f.i++
			if c.op == OVar {
				s.used[c.name] = true
			}
			if c.leaf() == "" {
				if _, ok := s.names[c]; !ok {
					st = append(st, fr{c, 0})
				}
			}
			continue
		}
		x := f.t
		st = st[:len(st)-1]
		if _, ok := s.names[x]; ok {
			continue
		}
		arg := func(i int) string {
			if l := x.a[i].leaf(); l != "" {
				return l
			}
			return s.names[x.a[i]]
		}
		var e string
		switch x.op {
		case OExtract:
			e = fmt.Sprintf("((_ extract %d %d) %s)", int(x.k)+x.w-1, x.k, arg(0))
		case OZext:
			e = fmt.Sprintf("((_ zero_extend %d) %s)", x.w-x.a[0].w, arg(0))
		case OSext:
			e = fmt.Sprintf("((_ sign_extend %d) %s)", x.w-x.a[0].w, arg(0))
		case OSelect:
			e = fmt.Sprintf("(select %s %s)", x.name, arg(0))
		default:
			parts := []string{opName[x.op]}
			for i := 0; i < x.n; i++ {
				parts = append(parts, arg(i))
			}
			e = "(" + strings.Join(parts, " ") + ")"
		}
		n := fmt.Sprintf("t%d", x.id)
		fmt.Fprintf(&s.sb, "(define-fun %s () %s %s)\n", n, sortOf(x.w), e)
		s.names[x] = n
	}
	return s.names[t]
}

func (s *Script) Assert(t *Term) {
	r := s.ref(t)
	fmt.Fprintf(&s.sb, "(assert %s)\n", r)
}

func (s *Script) String() string {
	var d strings.Builder
	for _, a := range s.tb.arrs {
		fmt.Fprintf(&d, "(declare-const %s (Array (_ BitVec 64) (_ BitVec 8)))\n", a)
	}
	for _, v := range s.tb.vars {
		fmt.Fprintf(&d, "(declare-const %s %s)\n", v.name, sortOf(v.w))
	}
	return d.String() + s.sb.String()
}

// ---------- concrete evaluation (used by the translator self-test and by
// model-based replay extraction) ----------

type Model struct {
	vars map[string]uint64
	arrs map[string]map[uint64]uint8
	wide map[string][]byte // values of variables wider than 64 bits, big endian
}

func (m *Model) eval(t *Term, memo map[*Term]uint64) uint64 {
	if v, ok := memo[t]; ok {
		return v
	}
	var r uint64
	a := func(i int) uint64 { return m.eval(t.a[i], memo) }
	w := t.w
	switch t.op {
	case OConst:
		r = t.k
	case OVar:
		r = m.vars[t.name]
	case OAdd:
		r = a(0) + a(1)
	case OSub:
		r = a(0) - a(1)
	case OMul:
		r = a(0) * a(1)
	case OAnd:
		r = a(0) & a(1)
	case OOr:
		r = a(0) | a(1)
	case OXor:
		r = a(0) ^ a(1)
	case ONotBV:
		r = ^a(0)
	case ONeg:
		r = -a(0)
	case OShl:
		if s := a(1); s < uint64(w) {
			r = a(0) << s
		}
	case OLshr:
		if s := a(1); s < uint64(w) {
			r = a(0) >> s
		}
	case OAshr:
		s := a(1)
		if s >= uint64(w) {
			s = uint64(w - 1)
		}
		r = uint64(sx(a(0), w) >> s)
	case OUdiv:
		if d := a(1); d != 0 {
			r = a(0) / d
		} else {
			r = mask(w)
		}
	case OUrem:
		if d := a(1); d != 0 {
			r = a(0) % d
		} else {
			r = a(0)
		}
	case OSdiv:
		x, d := sx(a(0), w), sx(a(1), w)
		if d == 0 {
			if x >= 0 {
				r = mask(w)
			} else {
				r = 1
			}
		} else if d == -1 {
			r = uint64(-x)
		} else {
			r = uint64(x / d)
		}
	case OSrem:
		x, d := sx(a(0), w), sx(a(1), w)
		if d == 0 {
			r = uint64(x)
		} else if d == -1 {
			r = 0
		} else {
			r = uint64(x % d)
		}
	case OEq:
		r = b2u(a(0) == a(1))
	case OUlt:
		r = b2u(a(0) < a(1))
	case OUle:
		r = b2u(a(0) <= a(1))
	case OSlt:
		r = b2u(sx(a(0), t.a[0].w) < sx(a(1), t.a[0].w))
	case OSle:
		r = b2u(sx(a(0), t.a[0].w) <= sx(a(1), t.a[0].w))
	case ONot:
		r = 1 - a(0)
	case OBAnd:
		r = a(0) & a(1)
	case OBOr:
		r = a(0) | a(1)
	case OIte:
		if a(0) == 1 {
			r = a(1)
		} else {
			r = a(2)
		}
	case OExtract:
		r = a(0) >> t.k
	case OZext:
		r = a(0)
	case OSext:
		r = uint64(sx(a(0), t.a[0].w))
	case OConcat:
		r = a(0)<<uint(t.a[1].w) | a(1)
	case OSelect:
		if am, ok := m.arrs[t.name]; ok {
			r = uint64(am[a(0)])
		}
	}
	if w > 0 {
		r &= mask(w)
	}
	memo[t] = r
	return r
}

func b2u(b bool) uint64 {
	if b {
		return 1
	}
	return 0
}

func sortedKeys(m map[string]bool) []string {
	var r []string
	for k := range m {
		r = append(r, k)
	}
	sort.Strings(r)
	return r
}
