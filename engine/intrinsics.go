// Intrinsics: the vx harness API and models of library functions whose
// bodies are assembly, runtime, or deliberately abstracted (see DESIGN §2.5).
package main

import (
	"fmt"
	"go/token"
	"go/types"
	"strings"

	"golang.org/x/tools/go/ssa"
)

func (e *Exec) recordInput(kind string, w int, arr string, terms ...*Term) {
	e.inputs = append(e.inputs, inputRec{kind: kind, terms: terms, arr: arr, w: w})
}

func (e *Exec) freshInput(kind string, w int) *Term {
	t := e.tb.Fresh("v", w)
	e.recordInput(kind, w, "", t)
	return t
}

func (e *Exec) argStr(v Value) string {
	s, ok := e.concStr(v.(*Str))
	if !ok {
		e.unsupported("symbolic string where a literal is required")
	}
	return s
}

func (e *Exec) argInt(v Value) int {
	t := v.(*Term)
	if !t.isConst() {
		e.unsupported("symbolic int where a constant is required")
	}
	return int(t.sval())
}

func (g *Engine) registerIntrinsics() {
	I := g.intr
	g.registerHashIntrinsics()
	g.registerStringIntrinsics()
	vx := func(name string, h func(e *Exec, a []Value, pos token.Pos) Value) {
		I["vx:"+name] = func(e *Exec, fn *ssa.Function, a []Value, pos token.Pos) Value {
			if e.spec > 0 {
				switch name {
				case "vxSameObject", "vxOffsetIn", "vxIsNilSlice", "vxThorough", "vxKnownOpen", "vxAt", "vxStrAt":
				default:
					panic(specAbort{"vx call"})
				}
			}
			return h(e, a, pos)
		}
	}
	vx("vxInt", func(e *Exec, a []Value, pos token.Pos) Value { return e.freshInput("int", 64) })
	// vxLen(max): an int in [0, max]; encoded as a narrow variable zero-extended to 64 bits so that
	// the high bits are syntactically zero (large speed-up for the bit-blaster)
	vx("vxLen", func(e *Exec, a []Value, pos token.Pos) Value {
		if mt := a[0].(*Term); !mt.isConst() {
			v := e.freshInput("int", 64)
			e.assume(e.tb.And(e.tb.Cmp(OSle, e.tb.K(64, 0), v), e.tb.Cmp(OSle, v, mt)))
			return v
		}
		max := e.argInt(a[0])
		bits := 1
		for (1 << uint(bits)) <= max {
			bits++
		}
		v := e.tb.Fresh("v", bits)
		t := e.tb.Conv(v, 64, false)
		e.recordInput("int", 64, "", t)
		if max != (1<<uint(bits))-1 {
			e.assume(e.tb.Cmp(OUle, v, e.tb.K(bits, uint64(max))))
		}
		return t
	})
	vx("vxU64", func(e *Exec, a []Value, pos token.Pos) Value { return e.freshInput("u64", 64) })
	vx("vxU32", func(e *Exec, a []Value, pos token.Pos) Value { return e.freshInput("u32", 32) })
	vx("vxU16", func(e *Exec, a []Value, pos token.Pos) Value { return e.freshInput("u16", 16) })
	vx("vxU8", func(e *Exec, a []Value, pos token.Pos) Value { return e.freshInput("u8", 8) })
	vx("vxBool", func(e *Exec, a []Value, pos token.Pos) Value { return e.freshInput("bool", 0) })
	vx("vxBytes", func(e *Exec, a []Value, pos token.Pos) Value {
		n, c := a[0].(*Term), a[1].(*Term)
		tb := e.tb
		// the harness must have bounded n and c; we only require 0 <= n <= c here
		e.assume(tb.And(tb.Cmp(OSle, tb.K(64, 0), n), tb.Cmp(OSle, n, c)))
		arr := tb.FreshArr("arr")
		max := -1
		if c.isConst() {
			max = int(c.k)
		}
		o := e.newBObj(c, max, "vxBytes")
		o.base = arr
		e.recordInput("bytes", 0, arr, n, c)
		return &Slice{b: o, off: tb.K(64, 0), len: n, cap: c, elem: types.Typ[types.Uint8]}
	})
	vx("vxString", func(e *Exec, a []Value, pos token.Pos) Value {
		n := a[0].(*Term)
		max := e.argInt(a[1])
		tb := e.tb
		e.assume(tb.And(tb.Cmp(OSle, tb.K(64, 0), n), tb.Cmp(OSle, n, tb.K(64, uint64(max)))))
		arr := tb.FreshArr("str")
		o := e.newBObj(n, max, "vxString")
		o.base = arr
		o.ro = true
		e.recordInput("string", 0, arr, n)
		return &Str{b: o, off: tb.K(64, 0), len: n}
	})
	vx("vxASCIIString", func(e *Exec, a []Value, pos token.Pos) Value {
		max := e.argInt(a[0])
		tb := e.tb
		bits := 1
		for (1 << uint(bits)) <= max {
			bits++
		}
		nv := tb.Fresh("v", bits)
		n := tb.Conv(nv, 64, false)
		if max != (1<<uint(bits))-1 {
			e.assume(tb.Cmp(OUle, nv, tb.K(bits, uint64(max))))
		}
		arr := tb.FreshArr("str")
		o := e.newBObj(n, max, "vxASCIIString")
		o.base = arr
		o.ro = true
		for i := 0; i < max; i++ {
			e.assume(tb.Cmp(OUlt, tb.Select(arr, tb.K(64, uint64(i))), tb.K(8, 0x80)))
		}
		e.recordInput("int", 64, "", n)
		e.recordInput("string", 0, arr, n)
		return &Str{b: o, off: tb.K(64, 0), len: n}
	})
	vx("vxAssume", func(e *Exec, a []Value, pos token.Pos) Value {
		c := a[0].(*Term)
		e.assume(c)
		if !c.isConst() && len(e.dec) >= len(e.prefix) {
			// keep the path condition satisfiable: an infeasible path would pass every assertion vacuously
			if e.sat(e.tb.True()) == "unsat" {
				panic(pathEnd{"assume-infeasible"})
			}
		}
		return nil
	})
	vx("vxAssert", func(e *Exec, a []Value, pos token.Pos) Value {
		label := e.argStr(a[1])
		if len(e.dec) >= len(e.prefix) {
			e.asserts[label]++
		}
		e.check(a[0].(*Term), "assert", label, pos)
		return nil
	})
	// vxAllocs(f): runs f and returns the number of heap-allocation events it raised (see alloc.go)
	vx("vxAllocs", func(e *Exec, a []Value, pos token.Pos) Value {
		if e.eng.esc == nil {
			e.unsupported("vxAllocs needs the compiler's escape analysis (-escapes)")
		}
		n0 := len(e.allocEvents)
		e.allocWatch++
		e.callValue(a[0], nil, pos)
		e.allocWatch--
		return e.tb.K(64, uint64(len(e.allocEvents)-n0))
	})
	// vxSharedWatch(on): writes to package-level variables of the package under test need a held mutex
	vx("vxSharedWatch", func(e *Exec, a []Value, pos token.Pos) Value {
		e.sharedWatch = a[0].(*Term).isTrue()
		return nil
	})
	// vxJoinModel(on): WaitGroups count; goroutines started from now on run lazily at the Wait that joins them
	vx("vxJoinModel", func(e *Exec, a []Value, pos token.Pos) Value {
		e.joinModel = a[0].(*Term).isTrue()
		if e.wgCount == nil {
			e.wgCount = map[string]int{}
		}
		return nil
	})
	// vxGoroutinesLive(): goroutines started under the join model that have not run to completion
	vx("vxGoroutinesLive", func(e *Exec, a []Value, pos token.Pos) Value {
		return e.tb.K(64, uint64(e.goLive))
	})
	vx("vxReach", func(e *Exec, a []Value, pos token.Pos) Value {
		e.reach[e.argStr(a[0])] = true
		return nil
	})
	vx("vxSameObject", func(e *Exec, a []Value, pos token.Pos) Value {
		x, y := a[0].(*Slice), a[1].(*Slice)
		if x.isNil() || y.isNil() {
			return e.tb.False()
		}
		if x.b != nil {
			return e.tb.Bool(x.b == y.b)
		}
		return e.tb.Bool(x.c == y.c && sameIntPath(x.cpath, y.cpath))
	})
	vx("vxOffsetIn", func(e *Exec, a []Value, pos token.Pos) Value {
		return e.tb.Bin(OSub, a[0].(*Slice).off, a[1].(*Slice).off)
	})
	vx("vxAt", func(e *Exec, a []Value, pos token.Pos) Value {
		s := a[0].(*Slice)
		i := a[1].(*Term)
		in := e.inRange(i, s.len)
		return e.tb.Ite(in, e.sliceReadGuarded(s, i, in), e.tb.K(8, 0))
	})
	vx("vxStrAt", func(e *Exec, a []Value, pos token.Pos) Value {
		s := a[0].(*Str)
		i := a[1].(*Term)
		return e.tb.Ite(e.inRange(i, s.len), e.strByte(s, i), e.tb.K(8, 0))
	})
	vx("vxIsNilSlice", func(e *Exec, a []Value, pos token.Pos) Value { return e.tb.Bool(a[0].(*Slice).isNil()) })
	vx("vxChoose", func(e *Exec, a []Value, pos token.Pos) Value {
		n := e.argInt(a[0])
		d := e.choose(n)
		e.recordInput("choose", 64, "", e.tb.K(64, uint64(d)))
		return e.tb.K(64, uint64(d))
	})
	vx("vxUnwind", func(e *Exec, a []Value, pos token.Pos) Value {
		e.unwind = e.argInt(a[0])
		e.unwindCut = a[1].(*Term).isTrue()
		return nil
	})
	vx("vxID", func(e *Exec, a []Value, pos token.Pos) Value {
		arr := make(ArrV, 12)
		for i := range arr {
			arr[i] = e.freshInput("u8", 8)
		}
		return arr
	})
	vx("vxTime", func(e *Exec, a []Value, pos token.Pos) Value {
		// instants are 0 <= ns < 2^62: overflow of the 64-bit nanosecond count is outside every claim
		v := e.tb.Fresh("v", 62)
		t := e.tb.Conv(v, 64, false)
		e.recordInput("i64", 64, "", t)
		return e.mkTime(t)
	})
	vx("vxGuard", func(e *Exec, a []Value, pos token.Pos) Value {
		e.guards = append(e.guards, guardRule{e.argStr(a[0]), e.argStr(a[1]), e.argStr(a[2])})
		return nil
	})
	// vxConcretize(x, lo, hi): forks on the value of x in [lo, hi] and returns it as a constant
	vx("vxConcretize", func(e *Exec, a []Value, pos token.Pos) Value {
		x := a[0].(*Term)
		if x.isConst() {
			return x
		}
		lo, hi := e.argInt(a[1]), e.argInt(a[2])
		for k := lo; k <= hi; k++ {
			if e.branch(e.tb.Cmp(OEq, x, e.tb.K(64, uint64(k)))) {
				return e.tb.K(64, uint64(k))
			}
		}
		panic(pathEnd{"concretize-out-of-range"})
	})
	vx("vxNativeRun", func(e *Exec, a []Value, pos token.Pos) Value { return e.tb.False() })
	vx("vxTLSServerName", func(e *Exec, a []Value, pos token.Pos) Value {
		if v, ok := e.records["tls.ServerName"]; ok {
			return v
		}
		return e.mkStr("")
	})
	vx("vxDTLSServerName", func(e *Exec, a []Value, pos token.Pos) Value {
		if v, ok := e.records["dtls.ServerName"]; ok {
			return v
		}
		return e.mkStr("")
	})
	// vxLoopCut(typeName, method): cut the (single) loop of (*typeName).method with the harness hooks
	// vxLoopBase<method>, vxLoopHavoc<method>, vxLoopStep<method>
	vx("vxLoopCut", func(e *Exec, a []Value, pos token.Pos) Value {
		tn, mn := e.argStr(a[0]), e.argStr(a[1])
		tm := e.eng.pkg.Type(tn)
		if tm == nil {
			e.unsupported("vxLoopCut: no type %s", tn)
		}
		fn := e.eng.prog.LookupMethod(types.NewPointer(tm.Type()), e.eng.pkg.Pkg, mn)
		if fn == nil || fn.Blocks == nil {
			e.unsupported("vxLoopCut: no method %s.%s", tn, mn)
		}
		var header *ssa.BasicBlock
		for _, b := range fn.Blocks {
			for _, p := range b.Preds {
				if b.Dominates(p) {
					if header != nil && header != b {
						e.unsupported("vxLoopCut: %s has more than one loop", fn)
					}
					header = b
				}
			}
		}
		if header == nil {
			e.unsupported("vxLoopCut: %s has no loop (the loop's shape changed: the inductive check does not apply)", fn)
		}
		cut := &loopCut{header: header}
		for _, in := range header.Instrs {
			p, ok := in.(*ssa.Phi)
			if !ok {
				break
			}
			cut.phis = append(cut.phis, p)
		}
		cut.base, cut.havoc, cut.step = e.eng.pkg.Func("vxLoopBase"+mn), e.eng.pkg.Func("vxLoopHavoc"+mn), e.eng.pkg.Func("vxLoopStep"+mn)
		if cut.base == nil || cut.havoc == nil || cut.step == nil {
			e.unsupported("vxLoopCut: missing hooks for %s", mn)
		}
		if len(cut.base.Params) != 1+len(cut.phis) {
			// another loop shape (e.g. a single index instead of index + re-sliced rest): hooks with the
			// number of loop-carried variables as suffix, if the harness provides them
			sfx := fmt.Sprint(len(cut.phis))
			if b, h, st := e.eng.pkg.Func("vxLoopBase"+mn+sfx), e.eng.pkg.Func("vxLoopHavoc"+mn+sfx), e.eng.pkg.Func("vxLoopStep"+mn+sfx); b != nil && h != nil && st != nil {
				cut.base, cut.havoc, cut.step = b, h, st
			}
		}
		if len(cut.base.Params) == 1+len(cut.phis) {
			for i, ph := range cut.phis {
				if !types.Identical(ph.Type(), cut.base.Params[1+i].Type()) {
					e.unsupported("vxLoopCut: loop variable %d of %s has type %s, the hooks expect %s (the loop's shape changed)", i, fn, ph.Type(), cut.base.Params[1+i].Type())
				}
			}
		}
		if len(cut.base.Params) != 1+len(cut.phis) || len(cut.step.Params) != 1+len(cut.phis) {
			e.unsupported("vxLoopCut: the loop of %s carries %d variables, the hooks expect %d (the loop's shape changed)", fn, len(cut.phis), len(cut.base.Params)-1)
		}
		if e.loopCuts == nil {
			e.loopCuts = map[*ssa.Function]*loopCut{}
		}
		e.loopCuts[fn] = cut
		return nil
	})
	// vxStepBudget(n): from here on the path may execute at most n SSA instructions (0 = no limit);
	// exceeding it is reported as non-termination (concrete loops that never exit are otherwise only
	// stopped by the global instruction budget, as inconclusive)
	vx("vxStepBudget", func(e *Exec, a []Value, pos token.Pos) Value {
		n := e.argInt(a[0])
		e.stepBudget = n
		if n == 0 {
			e.stepLimit = 0
		} else {
			e.stepLimit = e.instrs + n
		}
		return nil
	})
	vx("vxGuardsOff", func(e *Exec, a []Value, pos token.Pos) Value {
		e.guards = nil
		return nil
	})
	vx("vxMutexHeld", func(e *Exec, a []Value, pos token.Pos) Value {
		p := a[0].(*Ptr)
		ms := e.mutex[mutexKey(p)]
		return e.tb.Bool(ms != nil && (ms.held > 0 || ms.readers > 0))
	})
	vx("vxRWMutexHeld", func(e *Exec, a []Value, pos token.Pos) Value {
		p := a[0].(*Ptr)
		ms := e.mutex[mutexKey(p)]
		return e.tb.Bool(ms != nil && (ms.held > 0 || ms.readers > 0))
	})
	vx("vxThorough", func(e *Exec, a []Value, pos token.Pos) Value { return e.tb.Bool(e.eng.cfg.Tier == "thorough") })
	vx("vxKnownOpen", func(e *Exec, a []Value, pos token.Pos) Value { return e.tb.Bool(e.eng.cfg.Known[e.argStr(a[0])]) })
	vx("vxNote", func(e *Exec, a []Value, pos token.Pos) Value { return nil })
	// UF primitives
	vx("vxSHA1", func(e *Exec, a []Value, pos token.Pos) Value {
		return e.digestArr(e.ufApply("sha1", 160, e.seqOfSlice(a[0].(*Slice))), 20)
	})
	vx("vxSHA256", func(e *Exec, a []Value, pos token.Pos) Value {
		return e.digestArr(e.ufApply("sha256", 256, e.seqOfSlice(a[0].(*Slice))), 32)
	})
	vx("vxMD5", func(e *Exec, a []Value, pos token.Pos) Value {
		return e.digestArr(e.ufApply("md5", 128, e.seqOfSlice(a[0].(*Slice))), 16)
	})
	vx("vxHMACSHA1", func(e *Exec, a []Value, pos token.Pos) Value {
		return e.digestArr(e.ufApply("hmacsha1", 160, e.seqOfSlice(a[0].(*Slice)), e.seqOfSlice(a[1].(*Slice))), 20)
	})
	vx("vxCRC32", func(e *Exec, a []Value, pos token.Pos) Value {
		return e.ufApply("crc32", 32, e.seqOfSlice(a[0].(*Slice)))
	})

	// ---- formatting / logging: opaque ----
	for _, n := range []string{"fmt.Sprintf", "fmt.Sprint", "fmt.Sprintln"} {
		I[n] = func(e *Exec, fn *ssa.Function, a []Value, pos token.Pos) Value { return e.mkStr("<fmt>") }
	}
	I["fmt.Errorf"] = func(e *Exec, fn *ssa.Function, a []Value, pos token.Pos) Value {
		e.nobj++
		return e.opaqueError(fmt.Sprintf("fmt.Errorf#%d", e.nobj))
	}
	for _, n := range []string{"log.Println", "log.Printf", "log.Print"} {
		I[n] = func(e *Exec, fn *ssa.Function, a []Value, pos token.Pos) Value { return nil }
	}
	I["errors.Is"] = func(e *Exec, fn *ssa.Function, a []Value, pos token.Pos) Value {
		return e.tb.Bool(e.errorsIs(a[0].(Iface), a[1].(Iface), pos))
	}
	I["errors.As"] = func(e *Exec, fn *ssa.Function, a []Value, pos token.Pos) Value {
		return e.tb.Bool(e.errorsAs(a[0].(Iface), a[1].(Iface), pos))
	}
	I["runtime.SetFinalizer"] = func(e *Exec, fn *ssa.Function, a []Value, pos token.Pos) Value { return nil }
	I["runtime.KeepAlive"] = func(e *Exec, fn *ssa.Function, a []Value, pos token.Pos) Value { return nil }

	// ---- crypto/subtle, xor ----
	I["crypto/subtle.XORBytes"] = func(e *Exec, fn *ssa.Function, a []Value, pos token.Pos) Value {
		return e.xorBytes(a[0].(*Slice), a[1].(*Slice), a[2].(*Slice), pos)
	}
	I["hash/crc32.ChecksumIEEE"] = func(e *Exec, fn *ssa.Function, a []Value, pos token.Pos) Value {
		return e.ufApply("crc32", 32, e.seqOfSlice(a[0].(*Slice)))
	}

	// ---- sync ----
	I["(*sync.Mutex).Lock"] = func(e *Exec, fn *ssa.Function, a []Value, pos token.Pos) Value { e.lock(a[0], false, pos); return nil }
	I["(*sync.Mutex).Unlock"] = func(e *Exec, fn *ssa.Function, a []Value, pos token.Pos) Value {
		e.unlock(a[0], false, pos)
		return nil
	}
	I["(*sync.Mutex).TryLock"] = func(e *Exec, fn *ssa.Function, a []Value, pos token.Pos) Value {
		e.unsupported("TryLock")
		return nil
	}
	I["(*sync.RWMutex).Lock"] = I["(*sync.Mutex).Lock"]
	I["(*sync.RWMutex).Unlock"] = I["(*sync.Mutex).Unlock"]
	I["(*sync.RWMutex).RLock"] = func(e *Exec, fn *ssa.Function, a []Value, pos token.Pos) Value { e.lock(a[0], true, pos); return nil }
	I["(*sync.RWMutex).RUnlock"] = func(e *Exec, fn *ssa.Function, a []Value, pos token.Pos) Value { e.unlock(a[0], true, pos); return nil }
	nop := func(e *Exec, fn *ssa.Function, a []Value, pos token.Pos) Value { return nil }
	I["(*sync.WaitGroup).Add"] = func(e *Exec, fn *ssa.Function, a []Value, pos token.Pos) Value {
		if e.joinModel {
			e.wgCount[mutexKey(e.ptr(a[0], pos))] += int(int64(a[1].(*Term).k))
		}
		return nil
	}
	I["(*sync.WaitGroup).Done"] = func(e *Exec, fn *ssa.Function, a []Value, pos token.Pos) Value {
		if e.joinModel {
			k := mutexKey(e.ptr(a[0], pos))
			e.wgCount[k]--
			if e.wgCount[k] < 0 {
				e.check(e.tb.False(), "panic", "sync: negative WaitGroup counter", pos)
				panic(pathEnd{"wg-negative"})
			}
		}
		return nil
	}
	I["(*sync.WaitGroup).Wait"] = func(e *Exec, fn *ssa.Function, a []Value, pos token.Pos) Value {
		if e.joinModel {
			e.wgWait(mutexKey(e.ptr(a[0], pos)), pos)
		}
		return nil
	}
	// sync.Cond.Wait in the sequential model: release L, let the harness run the pending events, re-acquire L.
	// A wait that is never satisfied (no pending events left) is the deadlock "the caller blocks for ever".
	I["(*sync.Cond).Wait"] = func(e *Exec, fn *ssa.Function, a []Value, pos token.Pos) Value {
		p := e.ptr(a[0], pos)
		st := getPath(p.obj.v, p.path).(StructV)
		var locker Iface
		for _, f := range st {
			if l, ok := f.(Iface); ok && l.t != nil {
				locker = l
			}
		}
		e.condWaits++
		if e.condWaits > 6 {
			if len(e.dec) >= len(e.prefix) {
				e.fail("deadlock", "sync.Cond.Wait is never satisfied: the caller blocks for ever", pos, e.tb.True())
			}
			panic(pathEnd{"deadlock"})
		}
		if locker.t != nil {
			e.unlock(locker.v, false, pos)
		}
		if hook := e.eng.pkg.Func("vxCondWait"); hook != nil {
			e.callFunc(hook, nil, nil, pos)
		}
		if locker.t != nil {
			e.lock(locker.v, false, pos)
		}
		return nil
	}
	vx("vxSpawn", func(e *Exec, a []Value, pos token.Pos) Value {
		// symbolic: the closure becomes the pending event set run at the next blocking wait
		g := e.eng.pkg.Var("vxPending")
		if g == nil {
			e.unsupported("vxSpawn without vxPending")
		}
		e.store(&Ptr{obj: e.global(g)}, a[0], pos)
		return nil
	})
	I["(*sync.Cond).Broadcast"] = nop
	I["(*sync.Cond).Signal"] = nop
	I["(*sync.Pool).Get"] = func(e *Exec, fn *ssa.Function, a []Value, pos token.Pos) Value {
		p := e.ptr(a[0], pos)
		key := mutexKey(p)
		if l := e.pools[key]; len(l) > 0 {
			v := l[len(l)-1]
			e.pools[key] = l[:len(l)-1]
			return v
		}
		// New field
		st := getPath(p.obj.v, p.path).(StructV)
		pt := p.obj.typ
		if len(p.path) > 0 {
			pt = nil
		}
		_ = pt
		// locate field "New" by scanning for a closure-typed field
		for _, fv := range st {
			if c, ok := fv.(*Closure); ok && c != nil {
				return e.callValue(c, nil, pos)
			}
		}
		return Iface{}
	}
	I["(*sync.Pool).Put"] = func(e *Exec, fn *ssa.Function, a []Value, pos token.Pos) Value {
		p := e.ptr(a[0], pos)
		key := mutexKey(p)
		e.pools[key] = append(e.pools[key], a[1])
		return nil
	}

	// ---- sync/atomic (sequential) ----
	for _, w := range []string{"Int32", "Int64", "Uint32", "Uint64"} {
		w := w
		I["sync/atomic.Load"+w] = func(e *Exec, fn *ssa.Function, a []Value, pos token.Pos) Value { return e.load(a[0], pos) }
		I["sync/atomic.Store"+w] = func(e *Exec, fn *ssa.Function, a []Value, pos token.Pos) Value {
			e.store(a[0], a[1], pos)
			return nil
		}
		I["sync/atomic.Add"+w] = func(e *Exec, fn *ssa.Function, a []Value, pos token.Pos) Value {
			n := e.tb.Bin(OAdd, e.load(a[0], pos).(*Term), a[1].(*Term))
			e.store(a[0], n, pos)
			return n
		}
		I["sync/atomic.CompareAndSwap"+w] = func(e *Exec, fn *ssa.Function, a []Value, pos token.Pos) Value {
			old := e.load(a[0], pos).(*Term)
			eq := e.tb.Cmp(OEq, old, a[1].(*Term))
			e.store(a[0], e.tb.Ite(eq, a[2].(*Term), old), pos)
			return eq
		}
	}

	// ---- time (abstract 64-bit nanosecond instants) ----
	I["(time.Time).Add"] = func(e *Exec, fn *ssa.Function, a []Value, pos token.Pos) Value {
		return e.mkTime(e.tb.Bin(OAdd, e.timeNs(a[0]), a[1].(*Term)))
	}
	I["(time.Time).Sub"] = func(e *Exec, fn *ssa.Function, a []Value, pos token.Pos) Value {
		return e.tb.Bin(OSub, e.timeNs(a[0]), e.timeNs(a[1]))
	}
	I["(time.Time).Before"] = func(e *Exec, fn *ssa.Function, a []Value, pos token.Pos) Value {
		return e.tb.Cmp(OSlt, e.timeNs(a[0]), e.timeNs(a[1]))
	}
	I["(time.Time).After"] = func(e *Exec, fn *ssa.Function, a []Value, pos token.Pos) Value {
		return e.tb.Cmp(OSlt, e.timeNs(a[1]), e.timeNs(a[0]))
	}
	I["(time.Time).Equal"] = func(e *Exec, fn *ssa.Function, a []Value, pos token.Pos) Value {
		return e.tb.Cmp(OEq, e.timeNs(a[0]), e.timeNs(a[1]))
	}
	I["(time.Time).IsZero"] = func(e *Exec, fn *ssa.Function, a []Value, pos token.Pos) Value {
		return e.tb.Cmp(OEq, e.timeNs(a[0]), e.tb.K(64, 0))
	}
	I["(time.Time).UnixNano"] = func(e *Exec, fn *ssa.Function, a []Value, pos token.Pos) Value { return e.timeNs(a[0]) }
	I["time.Now"] = func(e *Exec, fn *ssa.Function, a []Value, pos token.Pos) Value {
		e.unsupported("time.Now (harness must inject a clock)")
		return nil
	}
}

func (e *Exec) callerPos() token.Pos {
	if e.curFrame != nil {
		return e.curFrame.callPos
	}
	return token.NoPos
}

// ---------- time ----------

func (e *Exec) mkTime(ns *Term) Value {
	return StructV{e.tb.K(64, 0), ns, (*Ptr)(nil)}
}
func (e *Exec) timeNs(v Value) *Term { return v.(StructV)[1].(*Term) }

// ---------- mutex model ----------

func (e *Exec) lock(pv Value, read bool, pos token.Pos) {
	p := e.ptr(pv, pos)
	k := mutexKey(p)
	ms := e.mutex[k]
	if ms == nil {
		ms = &mutexState{}
		e.mutex[k] = ms
	}
	if ms.held > 0 || (!read && ms.readers > 0) {
		e.lockLog = append(e.lockLog, "self-deadlock at "+e.eng.pos(pos))
		if len(e.dec) >= len(e.prefix) {
			e.fail("deadlock", "Lock of a mutex already held by the only modelled thread", pos, e.tb.True())
		}
		panic(pathEnd{"deadlock"})
	}
	if read {
		ms.readers++
	} else {
		ms.held++
	}
	e.lockLog = append(e.lockLog, fmt.Sprintf("lock %s read=%v at %s", p.obj.tag, read, e.eng.pos(pos)))
}

func (e *Exec) unlock(pv Value, read bool, pos token.Pos) {
	p := e.ptr(pv, pos)
	ms := e.mutex[mutexKey(p)]
	if ms == nil || (read && ms.readers == 0) || (!read && ms.held == 0) {
		if len(e.dec) >= len(e.prefix) {
			e.fail("panic", "Unlock of unlocked mutex", pos, e.tb.True())
		}
		panic(pathEnd{"bad-unlock"})
	}
	if read {
		ms.readers--
	} else {
		ms.held--
	}
}

// ---------- errors.Is / errors.As ----------

func (e *Exec) methodOf(t types.Type, name string) *ssa.Function {
	ms := e.eng.prog.MethodSets.MethodSet(t)
	for i := 0; i < ms.Len(); i++ {
		if ms.At(i).Obj().Name() == name {
			return e.eng.prog.MethodValue(ms.At(i))
		}
	}
	return nil
}

func (e *Exec) errorsIs(err, target Iface, pos token.Pos) bool {
	for depth := 0; depth < 16; depth++ {
		if err.t == nil {
			return target.t == nil
		}
		if target.t != nil && types.Comparable(target.t) {
			eq := e.valEq(err, target, nil)
			if !eq.isConst() {
				if e.branch(eq) {
					return true
				}
			} else if eq.isTrue() {
				return true
			}
		}
		if m := e.methodOf(err.t, "Is"); m != nil && m.Signature.Params().Len() == 1 {
			r := e.callFunc(m, []Value{err.v, target}, nil, pos).(*Term)
			if e.branch(r) {
				return true
			}
		}
		m := e.methodOf(err.t, "Unwrap")
		if m == nil || m.Signature.Results().Len() != 1 {
			return false
		}
		if _, isSlice := m.Signature.Results().At(0).Type().Underlying().(*types.Slice); isSlice {
			e.unsupported("errors.Is over Unwrap() []error")
		}
		err = e.callFunc(m, []Value{err.v}, nil, pos).(Iface)
	}
	return false
}

func (e *Exec) errorsAs(err, target Iface, pos token.Pos) bool {
	if target.t == nil {
		e.unsupported("errors.As with nil target")
	}
	pt, ok := target.t.Underlying().(*types.Pointer)
	if !ok {
		e.unsupported("errors.As target is not a pointer")
	}
	tt := pt.Elem()
	for depth := 0; depth < 16 && err.t != nil; depth++ {
		match := false
		if types.IsInterface(tt) {
			match = types.Implements(err.t, tt.Underlying().(*types.Interface))
		} else {
			match = types.Identical(err.t, tt)
		}
		if match {
			if types.IsInterface(tt) {
				e.store(target.v, err, pos)
			} else {
				e.store(target.v, err.v, pos)
			}
			return true
		}
		if m := e.methodOf(err.t, "As"); m != nil {
			e.unsupported("errors.As with custom As method")
		}
		m := e.methodOf(err.t, "Unwrap")
		if m == nil || m.Signature.Results().Len() != 1 {
			return false
		}
		err = e.callFunc(m, []Value{err.v}, nil, pos).(Iface)
	}
	return false
}

// ---------- subtle.XORBytes ----------

func (e *Exec) xorBytes(dst, x, y *Slice, pos token.Pos) Value {
	tb := e.tb
	n := tb.Ite(tb.Cmp(OSlt, x.len, y.len), x.len, y.len)
	if n.isConst() && n.k == 0 {
		return n
	}
	e.check(tb.Cmp(OSle, n, dst.len), "panic", "subtle.XORBytes: dst too short", pos)
	// concrete upper bound on n
	max := -1
	for _, l := range []*Term{x.len, y.len} {
		if l.isConst() && (max < 0 || int(l.k) < max) {
			max = int(l.k)
		}
	}
	if max < 0 || max > 256 {
		e.unsupported("XORBytes with unbounded symbolic length")
	}
	vals := make([]*Term, max)
	for j := 0; j < max; j++ {
		kj := tb.K(64, uint64(j))
		in := tb.Cmp(OSlt, kj, n)
		if in.isFalse() {
			vals[j] = nil
			continue
		}
		v := tb.Bin(OXor, e.sliceReadGuarded(x, kj, in), e.sliceReadGuarded(y, kj, in))
		if !in.isTrue() {
			v = tb.Ite(in, v, e.sliceReadGuarded(dst, kj, in))
		}
		vals[j] = v
	}
	for j, v := range vals {
		if v != nil {
			e.store(e.elemPtr(dst, tb.K(64, uint64(j))), v, pos)
		}
	}
	return n
}

// sliceReadGuarded reads s[i]; the value is only meaningful when guard holds.
func (e *Exec) sliceReadGuarded(s *Slice, i *Term, guard *Term) *Term {
	if s.b != nil {
		return e.bread(s.b, len(s.b.log), e.tb.Bin(OAdd, s.off, i))
	}
	if s.isNil() {
		return e.tb.K(8, 0)
	}
	abs := e.tb.Bin(OAdd, s.off, i)
	arr := e.cellArr(s)
	if abs.isConst() {
		if int(abs.k) < len(arr) {
			return arr[abs.k].(*Term)
		}
		return e.tb.K(8, 0)
	}
	return e.load(&Ptr{obj: s.c, path: s.cpath, sidx: abs}, token.NoPos).(*Term)
}

// ---------- uninterpreted functions over byte sequences ----------

type byteSeq struct {
	obj  *BObj
	logn int
	off  *Term
	len  *Term
	cell []*Term // alternative: explicit bytes (array-backed)
}

type ufApp struct {
	seqs []byteSeq
	out  *Term
}

func (e *Exec) seqOfSlice(s *Slice) byteSeq {
	if s.isNil() {
		return byteSeq{len: e.tb.K(64, 0), off: e.tb.K(64, 0)}
	}
	if s.b != nil {
		return byteSeq{obj: s.b, logn: len(s.b.log), off: s.off, len: s.len}
	}
	if !s.len.isConst() || !s.off.isConst() {
		e.unsupported("UF over array-backed slice with symbolic bounds")
	}
	arr := e.cellArr(s)
	var cell []*Term
	for i := uint64(0); i < s.len.k; i++ {
		cell = append(cell, arr[s.off.k+i].(*Term))
	}
	return byteSeq{cell: cell, len: s.len, off: e.tb.K(64, 0)}
}

func (e *Exec) seqByte(q byteSeq, i *Term) *Term {
	if q.cell != nil {
		r := e.tb.K(8, 0)
		for j := len(q.cell) - 1; j >= 0; j-- {
			r = e.tb.Ite(e.tb.Cmp(OEq, i, e.tb.K(64, uint64(j))), q.cell[j], r)
		}
		return r
	}
	if q.obj == nil {
		return e.tb.K(8, 0)
	}
	return e.bread(q.obj, q.logn, e.tb.Bin(OAdd, q.off, i))
}

func (e *Exec) ufApply(name string, w int, seqs ...byteSeq) *Term {
	out := e.tb.Fresh("uf_"+name+"_", w)
	e.ufApps[name] = append(e.ufApps[name], &ufApp{seqs: seqs, out: out})
	e.hashes++
	return out
}

// ufConstraints adds functional-consistency constraints (Ackermann with Skolem
// witnesses) for the UF applications whose outputs the script mentions (to a
// fixpoint: a constraint may mention further outputs through nested hashing).
// A pair constraint none of whose outputs occurs elsewhere is satisfiable on
// its own and is left out.
func (e *Exec) ufConstraints(s *Script) {
	tb := e.tb
	var names []string
	for n := range e.ufApps {
		names = append(names, n)
	}
	sortStrings(names)
	type pair struct {
		n    string
		i, j int
	}
	done := map[pair]bool{}
	for changed := true; changed; {
		changed = false
		for _, n := range names {
			apps := e.ufApps[n]
			for i := 0; i < len(apps); i++ {
				for j := i + 1; j < len(apps); j++ {
					p := pair{n, i, j}
					a, b := apps[i], apps[j]
					if done[p] || !(s.used[a.out.name] || s.used[b.out.name]) {
						continue
					}
					done[p] = true
					changed = true
					differ := tb.False()
					for k := range a.seqs {
						qa, qb := a.seqs[k], b.seqs[k]
						d := tb.Not(tb.Cmp(OEq, qa.len, qb.len))
						if d.isTrue() {
							differ = d
							break
						}
						max := qa.len.rhi
						if qb.len.rhi < max {
							max = qb.len.rhi
						}
						if max <= 192 {
							// short sequences: position by position (reads at concrete indices fold syntactically)
							for p := uint64(0); p < max && !d.isTrue(); p++ {
								kp := tb.K(64, p)
								ne := tb.Not(tb.Cmp(OEq, e.seqByte(qa, kp), e.seqByte(qb, kp)))
								if !ne.isFalse() {
									d = tb.Or(d, tb.And(tb.Cmp(OUlt, kp, qa.len), ne))
								}
							}
						} else {
							w := tb.Var(fmt.Sprintf("ufw_%s_%d_%d_%d", n, i, j, k), 64)
							in := tb.And(tb.Cmp(OSle, tb.K(64, 0), w), tb.Cmp(OSlt, w, qa.len))
							d = tb.Or(d, tb.And(in, tb.Not(tb.Cmp(OEq, e.seqByte(qa, w), e.seqByte(qb, w)))))
						}
						differ = tb.Or(differ, d)
					}
					s.Assert(tb.Or(differ, tb.Cmp(OEq, a.out, b.out)))
					if n != "crc32" {
						// cryptographic hashes are idealised as collision-free in a cheap, partial form:
						// equal digests imply inputs of equal length that agree on their first 4 bytes
						same := tb.True()
						for k := range a.seqs {
							qa, qb := a.seqs[k], b.seqs[k]
							same = tb.And(same, tb.Cmp(OEq, qa.len, qb.len))
							for p := uint64(0); p < 4; p++ {
								kp := tb.K(64, p)
								eq := tb.Cmp(OEq, e.seqByte(qa, kp), e.seqByte(qb, kp))
								same = tb.And(same, tb.Or(tb.Not(tb.Cmp(OUlt, kp, qa.len)), eq))
							}
						}
						s.Assert(tb.Or(tb.Not(tb.Cmp(OEq, a.out, b.out)), same))
					}
				}
			}
		}
	}
}

func sortStrings(a []string) {
	for i := 1; i < len(a); i++ {
		for j := i; j > 0 && a[j] < a[j-1]; j-- {
			a[j], a[j-1] = a[j-1], a[j]
		}
	}
}

// digestArr turns a w-bit digest term into a [n]byte array value (big endian).
func (e *Exec) digestArr(d *Term, n int) Value {
	arr := make(ArrV, n)
	for i := 0; i < n; i++ {
		arr[i] = e.tb.Extract(d, 8*(n-1-i), 8)
	}
	return arr
}

var _ = strings.HasPrefix
