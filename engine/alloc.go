// Heap-allocation events (property C20).
//
// Whether an allocation SITE allocates on the heap is decided by the real compiler's escape analysis:
// the engine runs `go build -gcflags=-m` on the package (with the harness overlay) and keeps every
// "escapes to heap" / "moved to heap" diagnostic, keyed by file and line.  Whether a site is REACHED for
// some input is decided by the symbolic execution: inside a vxAllocs region every executed SSA
// instruction that corresponds to a heap site raises an event, as does every append that outgrows its
// capacity (runtime growslice), go statements, channel creation and opaque formatting calls.  The number of
// events on a path is concrete (events abort if-conversion), so the harness asserts on it directly.
package main

import (
	"bufio"
	"bytes"
	"encoding/json"
	"fmt"
	"go/ast"
	"go/token"
	"go/types"
	"os"
	"os/exec"
	"path/filepath"
	"regexp"
	"strconv"
	"strings"
	"time"

	"golang.org/x/tools/go/ssa"
)

type escSite struct {
	line int
	col  int
	msg  string // text before " escapes to heap", or "moved:<name>"
}

type escInfo struct {
	sites map[string][]escSite // abs file -> sites
	nmsg  int
	cmd   string
}

var escRe = regexp.MustCompile(`^(.+?\.go):(\d+):(\d+): (.*)$`)

// loadEscapes runs the compiler's escape analysis on the package under test.
//
// The go command replays a cached compile's diagnostics from its build cache, and it does so silently
// best-effort: when the cached copy of that output is unreadable (its data file fails the cache's checksum,
// e.g. after the machine image was snapshotted before the file's data reached the disk) the build succeeds
// and prints nothing.  No diagnostics at all is therefore treated as "the cache did not replay", and the
// build is repeated once with an extra, empty, uniquely named source file in the overlay: that changes the
// package's build ID, so exactly this package is compiled afresh (its dependencies still come from the
// cache) and the compiler itself prints the diagnostics.  The cached text is checksummed as a whole, so a
// replay is either complete or absent, never partial.
func (g *Engine) loadEscapes() (*escInfo, error) {
	info, err := g.runEscapes(false)
	if err == errNoEscapeDiagnostics {
		if info, err = g.runEscapes(true); err == nil {
			info.cmd += " [compiled afresh: the build cache did not replay the diagnostics of the cached compile]"
		}
	}
	if err == errNoEscapeDiagnostics {
		return nil, fmt.Errorf("escape analysis produced no diagnostics, even when compiled afresh (%s)", info.cmd)
	}
	return info, err
}

var errNoEscapeDiagnostics = fmt.Errorf("escape analysis produced no diagnostics")

func (g *Engine) runEscapes(fresh bool) (*escInfo, error) {
	overlay := map[string]string{}
	for virt, real := range g.cfg.Overlay {
		overlay[virt] = real
	}
	if fresh {
		var dir string
		for file := range g.astFiles {
			dir = filepath.Dir(file)
			break
		}
		nonce, err := os.CreateTemp("", "gosymx-nonce-*.go")
		if err != nil {
			return nil, err
		}
		defer os.Remove(nonce.Name())
		fmt.Fprintf(nonce, "package %s\n\n// %s %d\n", g.pkg.Pkg.Name(), filepath.Base(nonce.Name()), time.Now().UnixNano())
		nonce.Close()
		overlay[filepath.Join(dir, "zz_vx_"+strings.ReplaceAll(filepath.Base(nonce.Name()), "-", "_"))] = nonce.Name()
	}
	ovf, err := os.CreateTemp("", "gosymx-ov-*.json")
	if err != nil {
		return nil, err
	}
	defer os.Remove(ovf.Name())
	json.NewEncoder(ovf).Encode(map[string]any{"Replace": overlay})
	ovf.Close()
	args := []string{"build", "-gcflags=-m", "-overlay", ovf.Name(), "-o", os.DevNull}
	if g.cfg.Tags != "" {
		args = append(args, "-tags="+g.cfg.Tags)
	}
	args = append(args, g.cfg.Pkg)
	cmd := exec.Command("go", args...)
	cmd.Dir = g.cfg.Repo
	cmd.Env = append(os.Environ(), "GOFLAGS=-mod=mod", "GOPROXY=off", "GOSUMDB=off", "GOTOOLCHAIN=local")
	var out bytes.Buffer
	cmd.Stdout, cmd.Stderr = &out, &out
	if err := cmd.Run(); err != nil {
		return nil, fmt.Errorf("go build -gcflags=-m: %v\n%s", err, out.String())
	}
	info := &escInfo{sites: map[string][]escSite{}, cmd: "go " + strings.Join(args, " ")}
	sc := bufio.NewScanner(&out)
	sc.Buffer(make([]byte, 1<<20), 1<<20)
	for sc.Scan() {
		m := escRe.FindStringSubmatch(sc.Text())
		if m == nil {
			continue
		}
		file := m[1]
		if !filepath.IsAbs(file) {
			file = filepath.Join(g.cfg.Repo, file)
		}
		file = filepath.Clean(file)
		line, _ := strconv.Atoi(m[2])
		col, _ := strconv.Atoi(m[3])
		msg := m[4]
		switch {
		case strings.HasPrefix(msg, "moved to heap: "):
			info.sites[file] = append(info.sites[file], escSite{line, col, "moved:" + strings.TrimPrefix(msg, "moved to heap: ")})
			info.nmsg++
		case strings.HasSuffix(msg, " escapes to heap"):
			info.sites[file] = append(info.sites[file], escSite{line, col, strings.TrimSuffix(msg, " escapes to heap")})
			info.nmsg++
		}
	}
	if info.nmsg == 0 {
		return info, errNoEscapeDiagnostics
	}
	return info, nil
}

// stmtLines returns the line range of the innermost statement enclosing pos.
func (g *Engine) stmtLines(pos token.Pos) (file string, lo, hi int) {
	p := g.fset.Position(pos)
	file, lo, hi = filepath.Clean(p.Filename), p.Line, p.Line
	f := g.astFiles[file]
	if f == nil {
		return
	}
	var best ast.Node
	ast.Inspect(f, func(n ast.Node) bool {
		if n == nil {
			return false
		}
		if n.Pos() > pos || n.End() < pos {
			return false
		}
		if _, ok := n.(ast.Stmt); ok {
			if _, isBlock := n.(*ast.BlockStmt); !isBlock {
				best = n
			}
		}
		return true
	})
	if best != nil {
		// compound statements: only the header part (up to the body) belongs to this site
		end := best.End()
		switch s := best.(type) {
		case *ast.IfStmt:
			end = s.Body.Lbrace
		case *ast.ForStmt:
			end = s.Body.Lbrace
		case *ast.RangeStmt:
			end = s.Body.Lbrace
		case *ast.SwitchStmt:
			end = s.Body.Lbrace
		case *ast.TypeSwitchStmt:
			end = s.Body.Lbrace
		case *ast.SelectStmt:
			end = s.Body.Lbrace
		case *ast.LabeledStmt:
			end = s.Colon
		}
		lo, hi = g.fset.Position(best.Pos()).Line, g.fset.Position(end).Line
		if p.Line < lo {
			lo = p.Line
		}
		if p.Line > hi {
			hi = p.Line
		}
	}
	return
}

type siteKind int

const (
	skMake siteKind = iota
	skNew
	skComplit
	skMoved
	skFuncLit
	skBox
	skConcat
	skConv
	skMap
)

func (k siteKind) matches(msg string) bool {
	switch k {
	case skMake:
		return strings.HasPrefix(msg, "make(")
	case skNew:
		return strings.HasPrefix(msg, "new(")
	case skComplit:
		return strings.HasPrefix(msg, "&") || strings.Contains(msg, "{...}") || strings.HasPrefix(msg, "... argument") || strings.HasPrefix(msg, "[]")
	case skMoved:
		return strings.HasPrefix(msg, "moved:")
	case skFuncLit:
		return strings.HasPrefix(msg, "func literal")
	case skConcat:
		return strings.Contains(msg, " + ")
	case skConv:
		return strings.HasPrefix(msg, "string(") || strings.HasPrefix(msg, "([]byte)(") || strings.HasPrefix(msg, "([]rune)(")
	case skMap:
		return strings.HasPrefix(msg, "make(map") || strings.HasPrefix(msg, "map[")
	case skBox:
		for _, p := range []string{"make(", "new(", "&", "func literal", "moved:", "string(", "([]byte)(", "map[", "... argument"} {
			if strings.HasPrefix(msg, p) {
				return false
			}
		}
		return !strings.Contains(msg, " + ") && !strings.HasSuffix(msg, "{...}")
	}
	return false
}

// heapSite: does the compiler report a heap allocation of this kind for the statement at pos?
// For packages without escape data (dependencies) the go/ssa view is used: conservative = true.
func (e *Exec) heapSite(pos token.Pos, k siteKind, name string) (bool, string) {
	g := e.eng
	if !pos.IsValid() {
		return false, ""
	}
	file, lo, hi := g.stmtLines(pos)
	if g.astFiles[file] == nil {
		return true, fmt.Sprintf("%s:%d (no escape data: dependency)", file, lo)
	}
	for _, s := range g.esc.sites[file] {
		if s.line < lo || s.line > hi || !k.matches(s.msg) {
			continue
		}
		if k == skMoved && s.msg != "moved:"+name {
			continue
		}
		return true, fmt.Sprintf("%s:%d:%d %s", file, s.line, s.col, strings.TrimPrefix(s.msg, "moved:"))
	}
	return false, ""
}

func (e *Exec) allocEvent(site string) {
	if e.allocWatch == 0 {
		return
	}
	if e.spec > 0 {
		panic(specAbort{"allocation event"})
	}
	e.allocEvents = append(e.allocEvents, site)
}

// instrPos: position of an instruction, or of the first user that has one.
func instrPos(in ssa.Instruction) token.Pos {
	if p := in.Pos(); p.IsValid() {
		return p
	}
	if v, ok := in.(ssa.Value); ok && v.Referrers() != nil {
		for _, r := range *v.Referrers() {
			if p := r.Pos(); p.IsValid() {
				return p
			}
		}
	}
	// fall back to the next positioned instruction of the block
	b := in.Block()
	seen := false
	for _, x := range b.Instrs {
		if x == in {
			seen = true
			continue
		}
		if seen && x.Pos().IsValid() {
			return x.Pos()
		}
	}
	return token.NoPos
}

func pointerShaped(t types.Type) bool {
	switch u := t.Underlying().(type) {
	case *types.Pointer, *types.Map, *types.Chan, *types.Signature:
		return true
	case *types.Basic:
		return u.Kind() == types.UnsafePointer
	case *types.Struct:
		return u.NumFields() == 1 && pointerShaped(u.Field(0).Type())
	case *types.Array:
		return u.Len() == 1 && pointerShaped(u.Elem())
	}
	return false
}

// allocInstr raises the event for instruction-level allocation sites.
func (e *Exec) allocInstr(in ssa.Instruction) {
	if e.allocWatch == 0 {
		return
	}
	switch x := in.(type) {
	case *ssa.Alloc:
		if !x.Heap {
			return
		}
		var k siteKind
		switch x.Comment {
		case "new":
			k = skNew
		case "complit", "slicelit", "varargs":
			k = skComplit
		case "makeslice":
			k = skMake
		default:
			k = skMoved
		}
		if ok, s := e.heapSite(instrPos(x), k, x.Comment); ok {
			e.allocEvent(s)
		}
	case *ssa.MakeSlice:
		if appendOfMake(x) {
			// append(s, make([]T, n)...): the compiler extends s in place (walk's extendslice) and
			// never materialises the temporary; growth of s itself is counted by the append
			return
		}
		if ok, s := e.heapSite(instrPos(x), skMake, ""); ok {
			e.allocEvent(s)
		}
	case *ssa.MakeInterface:
		if _, isConst := x.X.(*ssa.Const); isConst || pointerShaped(x.X.Type()) || e.eng.sizeof(x.X.Type()) == 0 {
			return
		}
		if ok, s := e.heapSite(instrPos(x), skBox, ""); ok {
			e.allocEvent(s)
		}
	case *ssa.MakeClosure:
		if len(x.Bindings) == 0 {
			return
		}
		if ok, s := e.heapSite(instrPos(x), skFuncLit, ""); ok {
			e.allocEvent(s)
		}
	case *ssa.MakeMap:
		if ok, s := e.heapSite(instrPos(x), skMap, ""); ok {
			e.allocEvent(s)
		}
	case *ssa.MakeChan:
		e.allocEvent(e.eng.pos(instrPos(x)) + " make(chan)")
	case *ssa.Go:
		e.allocEvent(e.eng.pos(instrPos(x)) + " go statement")
	case *ssa.BinOp:
		if x.Op == token.ADD {
			if b, ok := x.X.Type().Underlying().(*types.Basic); ok && b.Info()&types.IsString != 0 {
				if ok, s := e.heapSite(instrPos(x), skConcat, ""); ok {
					e.allocEvent(s)
				}
			}
		}
	case *ssa.Convert:
		_, fromSlice := x.X.Type().Underlying().(*types.Slice)
		_, toSlice := x.Type().Underlying().(*types.Slice)
		if fromSlice || toSlice {
			if ok, s := e.heapSite(instrPos(x), skConv, ""); ok {
				e.allocEvent(s)
			}
		}
	}
}

// allocatingCall: opaque library calls that always allocate.
func allocatingCall(name string) bool {
	for _, p := range []string{"fmt.Sprint", "fmt.Errorf", "fmt.Sprintf", "fmt.Sprintln", "errors.New", "strconv.Itoa", "strconv.Format",
		"strconv.Quote", "strings.Join", "strings.Repeat", "net.JoinHostPort", "(net.IP).String", "encoding/hex.EncodeToString",
		"encoding/base64.", "(*strings.Builder)."} {
		if strings.HasPrefix(name, p) {
			return true
		}
	}
	return false
}

// appendOfMake: is this make([]T, n) used only as the variadic argument of append?
func appendOfMake(x *ssa.MakeSlice) bool {
	refs := x.Referrers()
	if refs == nil || len(*refs) == 0 {
		return false
	}
	for _, r := range *refs {
		if _, isDbg := r.(*ssa.DebugRef); isDbg {
			continue
		}
		c, ok := r.(*ssa.Call)
		if !ok {
			return false
		}
		b, ok := c.Call.Value.(*ssa.Builtin)
		if !ok || b.Name() != "append" || len(c.Call.Args) != 2 || c.Call.Args[1] != ssa.Value(x) {
			return false
		}
	}
	return true
}
