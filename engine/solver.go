// Solver: one persistent `z3 -in` process; every query is (reset) + full script.
package main

import (
	"bufio"
	"fmt"
	"io"
	"os"
	"os/exec"
	"strconv"
	"strings"
	"time"
)

type Solver struct {
	cmd     *exec.Cmd
	in      io.WriteCloser
	out     *bufio.Reader
	argv    []string
	Queries int
	Time    time.Duration
	Worst   time.Duration
	Unknown int
	Errors  int
	timeout int // ms per query
	seed    int
	logf    io.Writer
	Tag     string
}

func solverArgv() []string {
	if s := os.Getenv("GOSYMX_SOLVER"); s != "" {
		return strings.Fields(s)
	}
	return []string{"z3", "-in"}
}

func NewSolver(timeoutMs, seed int) *Solver {
	s := &Solver{argv: solverArgv(), timeout: timeoutMs, seed: seed}
	s.start()
	if p := os.Getenv("GOSYMX_QLOG"); p != "" {
		f, _ := os.OpenFile(p, os.O_CREATE|os.O_APPEND|os.O_WRONLY, 0o644)
		s.logf = f
	}
	return s
}

func (s *Solver) start() {
	cmd := exec.Command(s.argv[0], s.argv[1:]...)
	in, err := cmd.StdinPipe()
	if err != nil {
		panic(err)
	}
	out, err := cmd.StdoutPipe()
	if err != nil {
		panic(err)
	}
	cmd.Stderr = os.Stderr
	if err := cmd.Start(); err != nil {
		panic(err)
	}
	s.cmd, s.in, s.out = cmd, in, bufio.NewReaderSize(out, 1<<20)
}

func (s *Solver) Close() {
	if s.cmd != nil {
		s.in.Close()
		s.cmd.Process.Kill()
		s.cmd.Wait()
		s.cmd = nil
	}
}

func (s *Solver) restart() {
	s.Close()
	s.start()
}

func (s *Solver) isZ3() bool { return strings.Contains(s.argv[0], "z3") }

func (s *Solver) header() string {
	if s.isZ3() {
		h := "(reset)\n"
		if s.timeout > 0 {
			h += fmt.Sprintf("(set-option :timeout %d)\n", s.timeout)
		}
		if s.seed != 0 {
			h += fmt.Sprintf("(set-option :smt.random_seed %d)\n(set-option :sat.random_seed %d)\n", s.seed, s.seed)
		}
		return h
	}
	// cvc5 --incremental
	return "(reset)\n(set-logic ALL)\n(set-option :produce-models true)\n"
}

// readResp reads one s-expression or atom response.
func (s *Solver) readResp() (string, error) {
	var sb strings.Builder
	depth := 0
	started := false
	for {
		line, err := s.out.ReadString('\n')
		if err != nil {
			return sb.String(), err
		}
		sb.WriteString(line)
		for _, ch := range line {
			switch ch {
			case '(':
				depth++
				started = true
			case ')':
				depth--
			default:
				if ch != ' ' && ch != '\n' && ch != '\t' && ch != '\r' {
					started = true
				}
			}
		}
		if started && depth <= 0 {
			return strings.TrimSpace(sb.String()), nil
		}
	}
}

// Check returns "sat", "unsat" or "unknown" (also for errors/timeouts).
// If getvals is non-empty and the answer is sat, values are fetched.
func (s *Solver) Check(script string, getvals []string) (string, map[string]string) {
	t0 := time.Now()
	s.Queries++
	var sb strings.Builder
	sb.WriteString(s.header())
	sb.WriteString(script)
	sb.WriteString("(check-sat)\n")
	if s.logf != nil {
		fmt.Fprintf(s.logf, "; ---- query %d\n%s", s.Queries, sb.String())
	}
	done := make(chan struct{})
	var timer *time.Timer
	killed := false
	if s.timeout > 0 {
		// hard wall-clock guard: 3x the soft timeout + 20s
		timer = time.AfterFunc(time.Duration(s.timeout*3)*time.Millisecond+20*time.Second, func() {
			select {
			case <-done:
			default:
				killed = true
				s.cmd.Process.Kill()
			}
		})
	}
	io.WriteString(s.in, sb.String())
	resp, err := s.readResp()
	close(done)
	if timer != nil {
		timer.Stop()
	}
	d := time.Since(t0)
	s.Time += d
	if d > s.Worst {
		s.Worst = d
		if p := os.Getenv("GOSYMX_WORST"); p != "" {
			os.WriteFile(p, []byte(sb.String()), 0o644)
		}
	}
	if err != nil || killed {
		s.Errors++
		s.restart()
		return "unknown", nil
	}
	if s.logf != nil {
		fmt.Fprintf(s.logf, "; -> %s %.3fs [%s]\n", resp, d.Seconds(), s.Tag)
	}
	switch resp {
	case "sat":
		if len(getvals) == 0 {
			return "sat", nil
		}
		vals := map[string]string{}
		const batch = 2000
		for i := 0; i < len(getvals); i += batch {
			j := i + batch
			if j > len(getvals) {
				j = len(getvals)
			}
			io.WriteString(s.in, "(get-value ("+strings.Join(getvals[i:j], " ")+"))\n")
			r, err := s.readResp()
			if err != nil || strings.Contains(r, "(error") {
				s.Errors++
				s.restart()
				return "unknown", nil
			}
			parseValues(r, vals)
		}
		return "sat", vals
	case "unsat":
		return "unsat", nil
	default:
		if strings.Contains(resp, "(error") {
			s.Errors++
			fmt.Fprintln(os.Stderr, "SOLVER ERROR:", resp)
			// drain: after an error z3 still answers check-sat; resync by restart
			s.restart()
		} else {
			s.Unknown++
		}
		return "unknown", nil
	}
}

// parseValues parses "((name value) (name value) ...)" where name is a
// symbol or a (select arr idx) term we sent verbatim; value is #x.., #b.., true/false
// or (_ bvN w).
func parseValues(r string, out map[string]string) {
	// tokenise at top level pairs
	r = strings.TrimSpace(r)
	if len(r) < 2 {
		return
	}
	r = r[1 : len(r)-1]
	depth := 0
	start := -1
	for i, ch := range r {
		switch ch {
		case '(':
			if depth == 0 {
				start = i
			}
			depth++
		case ')':
			depth--
			if depth == 0 && start >= 0 {
				pair := r[start+1 : i]
				splitPair(pair, out)
				start = -1
			}
		}
	}
}

func splitPair(p string, out map[string]string) {
	p = strings.TrimSpace(p)
	// key is either a symbol or a parenthesised term
	var key, val string
	if strings.HasPrefix(p, "(") {
		d := 0
		for i, ch := range p {
			if ch == '(' {
				d++
			} else if ch == ')' {
				d--
				if d == 0 {
					key = p[:i+1]
					val = strings.TrimSpace(p[i+1:])
					break
				}
			}
		}
	} else {
		i := strings.IndexAny(p, " \t\n")
		if i < 0 {
			return
		}
		key, val = p[:i], strings.TrimSpace(p[i:])
	}
	out[strings.Join(strings.Fields(key), " ")] = val
}

// valueBytes converts an SMT value literal to big-endian bytes (and a uint64
// of the low 64 bits).
func valueBits(v string) (uint64, []byte) {
	v = strings.TrimSpace(v)
	switch {
	case v == "true":
		return 1, []byte{1}
	case v == "false":
		return 0, []byte{0}
	case strings.HasPrefix(v, "#x"):
		h := v[2:]
		if len(h)%2 == 1 {
			h = "0" + h
		}
		bs := make([]byte, len(h)/2)
		for i := range bs {
			x, _ := strconv.ParseUint(h[2*i:2*i+2], 16, 8)
			bs[i] = byte(x)
		}
		var u uint64
		for _, b := range bs {
			u = u<<8 | uint64(b)
		}
		return u, bs
	case strings.HasPrefix(v, "#b"):
		var u uint64
		bits := v[2:]
		for _, c := range bits {
			u = u<<1 | uint64(c-'0')
		}
		n := (len(bits) + 7) / 8
		bs := make([]byte, n)
		for i := 0; i < n; i++ {
			bs[n-1-i] = byte(u >> (8 * uint(i)))
		}
		return u, bs
	case strings.HasPrefix(v, "(_ bv"):
		f := strings.Fields(strings.Trim(v, "()"))
		u, _ := strconv.ParseUint(strings.TrimPrefix(f[1], "bv"), 10, 64)
		return u, nil
	}
	return 0, nil
}
