// Models of string primitives whose bodies are assembly or use unsafe.
package main

import (
	"go/token"
	"go/types"

	"golang.org/x/tools/go/ssa"
)

// indexByte: first index of c in the byte sequence read by rd over [0,n), or -1.
func (e *Exec) indexByte(n *Term, max int, rd func(i *Term) *Term, c *Term) *Term {
	tb := e.tb
	if max <= 32 && e.spec == 0 {
		// short strings: decide the position by forking, so that all later offsets stay concrete
		for i := 0; i < max; i++ {
			ki := tb.K(64, uint64(i))
			if !e.branch(tb.Cmp(OSlt, ki, n)) {
				break
			}
			if e.branch(tb.Cmp(OEq, rd(ki), c)) {
				return ki
			}
		}
		return tb.K(64, ^uint64(0))
	}
	r := tb.K(64, ^uint64(0))
	for i := max - 1; i >= 0; i-- {
		ki := tb.K(64, uint64(i))
		hit := tb.And(tb.Cmp(OSlt, ki, n), tb.Cmp(OEq, rd(ki), c))
		r = tb.Ite(hit, ki, r)
	}
	return r
}

func (e *Exec) sliceMax(s *Slice) int {
	if s.len.isConst() {
		return int(s.len.k)
	}
	if s.len.rhi < 1<<20 {
		return int(s.len.rhi)
	}
	if s.b != nil && s.b.max >= 0 {
		return s.b.max
	}
	e.unsupported("byte slice without a concrete length bound")
	return 0
}

func (g *Engine) registerStringIntrinsics() {
	I := g.intr
	I["internal/bytealg.IndexByteString"] = func(e *Exec, fn *ssa.Function, a []Value, pos token.Pos) Value {
		s := a[0].(*Str)
		return e.indexByte(s.len, e.strMax(s), func(i *Term) *Term { return e.strByte(s, i) }, a[1].(*Term))
	}
	I["internal/bytealg.IndexByte"] = func(e *Exec, fn *ssa.Function, a []Value, pos token.Pos) Value {
		s := a[0].(*Slice)
		if s.isNil() {
			return e.tb.K(64, ^uint64(0))
		}
		return e.indexByte(s.len, e.sliceMax(s), func(i *Term) *Term { return e.sliceReadGuarded(s, i, nil) }, a[1].(*Term))
	}
	I["internal/bytealg.CountString"] = func(e *Exec, fn *ssa.Function, a []Value, pos token.Pos) Value {
		s := a[0].(*Str)
		tb := e.tb
		r := tb.K(64, 0)
		for i := 0; i < e.strMax(s); i++ {
			ki := tb.K(64, uint64(i))
			hit := tb.And(tb.Cmp(OSlt, ki, s.len), tb.Cmp(OEq, e.strByte(s, ki), a[1].(*Term)))
			r = tb.Bin(OAdd, r, tb.Ite(hit, tb.K(64, 1), tb.K(64, 0)))
		}
		return r
	}
	// strings.Builder: real code except for the unsafe parts
	I["(*strings.Builder).copyCheck"] = func(e *Exec, fn *ssa.Function, a []Value, pos token.Pos) Value { return nil }
	I["(*strings.Builder).String"] = func(e *Exec, fn *ssa.Function, a []Value, pos token.Pos) Value {
		p := e.ptr(a[0], pos)
		st := getPath(p.obj.v, p.path).(StructV)
		for _, f := range st {
			if sl, ok := f.(*Slice); ok {
				return e.bytesToString(sl)
			}
		}
		return e.mkStr("")
	}
	// net/url.Parse / ParseQuery: redirected to the harness-side model when the harness provides one
	for _, nm := range [][2]string{{"net/url.Parse", "vxModelURLParse"}, {"net/url.ParseQuery", "vxModelParseQuery"}} {
		model := g.pkg.Func(nm[1])
		if model == nil {
			continue
		}
		I[nm[0]] = func(e *Exec, fn *ssa.Function, a []Value, pos token.Pos) Value {
			return e.callFunc(model, a, nil, pos)
		}
	}
	// ---- recording stubs for DialURI (C17): TLS/DTLS wrappers, resolver, ticker ----
	fieldByName := func(e *Exec, pv Value, name string, pos token.Pos) Value {
		p := e.ptr(pv, pos)
		t := p.obj.typ
		for _, ix := range p.path { // the pointer may address a struct embedded in a larger object (&cfg.TLSConfig)
			switch u := t.Underlying().(type) {
			case *types.Struct:
				t = u.Field(ix).Type()
			case *types.Array:
				t = u.Elem()
			default:
				e.unsupported("config pointer through %s", t)
			}
		}
		st, ok := t.Underlying().(*types.Struct)
		if !ok {
			e.unsupported("config pointer does not address a struct")
		}
		for i := 0; i < st.NumFields(); i++ {
			if st.Field(i).Name() == name {
				return getPath(p.obj.v, p.path).(StructV)[i]
			}
		}
		e.unsupported("no field %s", name)
		return nil
	}
	dummyPtr := func(e *Exec, fn *ssa.Function, idx int) Value {
		res := fn.Signature.Results().At(idx).Type()
		et := res.Underlying().(*types.Pointer).Elem()
		return &Ptr{obj: e.newObj(e.zero(et), et, "dummy:"+res.String())}
	}
	I["crypto/tls.Client"] = func(e *Exec, fn *ssa.Function, a []Value, pos token.Pos) Value {
		e.records["tls.ServerName"] = fieldByName(e, a[1], "ServerName", pos)
		return dummyPtr(e, fn, 0)
	}
	I["github.com/pion/dtls/v3.Client"] = func(e *Exec, fn *ssa.Function, a []Value, pos token.Pos) Value {
		e.records["dtls.ServerName"] = fieldByName(e, a[2], "ServerName", pos)
		return Tuple{dummyPtr(e, fn, 0), Iface{}}
	}
	I["net.ResolveUDPAddr"] = func(e *Exec, fn *ssa.Function, a []Value, pos token.Pos) Value {
		return Tuple{dummyPtr(e, fn, 0), Iface{}}
	}
	I["time.NewTicker"] = func(e *Exec, fn *ssa.Function, a []Value, pos token.Pos) Value {
		p := dummyPtr(e, fn, 0).(*Ptr)
		if e.joinModel {
			// field 0 is C: a channel on which a tick may be pending at any time
			st := append(StructV{}, p.obj.v.(StructV)...)
			e.nobj++
			st[0] = &ChanV{id: e.nobj, ticker: true}
			p.obj.v = st
		}
		return p
	}
	I["strconv.cloneString"] = func(e *Exec, fn *ssa.Function, a []Value, pos token.Pos) Value { return a[0] }
	I["internal/stringslite.Clone"] = func(e *Exec, fn *ssa.Function, a []Value, pos token.Pos) Value { return a[0] }
	I["strings.Clone"] = func(e *Exec, fn *ssa.Function, a []Value, pos token.Pos) Value { return a[0] }
}

// bytesToString: string(b) (copying).
func (e *Exec) bytesToString(x *Slice) Value {
	tb := e.tb
	if x.isNil() || (x.len.isConst() && x.len.k == 0) {
		return e.mkStr("")
	}
	o := e.newBObj(x.len, -1, "string(bytes)")
	e.sliceCopyTo(o, tb.K(64, 0), x, x.len)
	o.ro = true
	if x.len.rhi < 1<<20 {
		o.max = int(x.len.rhi)
	} else if x.b != nil {
		o.max = x.b.max
	}
	return &Str{b: o, off: tb.K(64, 0), len: x.len}
}
