// If-conversion: an acyclic, side-effect-free region between a symbolic `If`
// and its immediate post-dominator is evaluated on all its internal paths
// without the solver and merged into ite terms.
package main

import (
	"go/token"

	"golang.org/x/tools/go/ssa"
)

// ipdom computes immediate post-dominators (by block index; -1 = virtual exit).
func (e *Exec) ipdoms(fn *ssa.Function) []int {
	if r, ok := e.pdoms[fn]; ok {
		return r
	}
	n := len(fn.Blocks)
	exit := n
	// post-dominator sets as bitsets over n+1 nodes
	words := (n + 1 + 63) / 64
	full := make([]uint64, words)
	for i := 0; i <= n; i++ {
		full[i/64] |= 1 << uint(i%64)
	}
	pd := make([][]uint64, n+1)
	for i := range pd {
		pd[i] = append([]uint64{}, full...)
	}
	pd[exit] = make([]uint64, words)
	pd[exit][exit/64] |= 1 << uint(exit%64)
	succs := func(b *ssa.BasicBlock) []int {
		if len(b.Succs) == 0 {
			return []int{exit}
		}
		var r []int
		for _, s := range b.Succs {
			r = append(r, s.Index)
		}
		return r
	}
	changed := true
	for changed {
		changed = false
		for i := n - 1; i >= 0; i-- {
			b := fn.Blocks[i]
			nw := append([]uint64{}, full...)
			for _, s := range succs(b) {
				for w := range nw {
					nw[w] &= pd[s][w]
				}
			}
			nw[i/64] |= 1 << uint(i%64)
			for w := range nw {
				if nw[w] != pd[i][w] {
					changed = true
				}
			}
			pd[i] = nw
		}
	}
	has := func(set []uint64, i int) bool { return set[i/64]&(1<<uint(i%64)) != 0 }
	count := func(set []uint64) int {
		c := 0
		for i := 0; i <= n; i++ {
			if has(set, i) {
				c++
			}
		}
		return c
	}
	res := make([]int, n)
	for i := 0; i < n; i++ {
		// ipdom = the strict post-dominator with the largest pdom set
		best, bestc := -1, -1
		for j := 0; j <= n; j++ {
			if j == i || !has(pd[i], j) {
				continue
			}
			if c := count(pd[j]); c > bestc {
				best, bestc = j, c
			}
		}
		if best == exit {
			best = -1
		}
		res[i] = best
	}
	e.pdoms[fn] = res
	return res
}

type mergePath struct {
	cond *Term
	prev *ssa.BasicBlock
	over map[ssa.Value]Value
	ret  Value
}

const maxMergePaths = 64

// mergeRegion tries to if-convert the region starting at the If ending block b.
// Returns (join block, return value, ok). join == nil means every path returned.
func (e *Exec) mergeRegion(f *frame, b *ssa.BasicBlock, c *Term) (j *ssa.BasicBlock, ret Value, ok bool) {
	ip := e.ipdoms(f.fn)[b.Index]
	var join *ssa.BasicBlock
	if ip >= 0 {
		join = f.fn.Blocks[ip]
	}
	var paths []mergePath
	savedObl, savedGuard := e.specObl, e.specGuard
	savedOver := f.over
	e.spec++
	e.specObl = nil
	defer func() {
		e.spec--
		f.over = savedOver
		if r := recover(); r != nil {
			if _, isAbort := r.(specAbort); isAbort {
				e.specObl, e.specGuard = savedObl, savedGuard
				j, ret, ok = nil, nil, false
				return
			}
			panic(r)
		}
	}()
	var explore func(blk, prev *ssa.BasicBlock, cond *Term, over map[ssa.Value]Value, depth int)
	explore = func(blk, prev *ssa.BasicBlock, cond *Term, over map[ssa.Value]Value, depth int) {
		if depth > 40 || len(paths) > maxMergePaths {
			panic(specAbort{"region too large"})
		}
		if blk == join {
			paths = append(paths, mergePath{cond: cond, prev: prev, over: over})
			return
		}
		if blk == b {
			panic(specAbort{"cycle"})
		}
		f.over = append(savedOver, over)
		e.specGuard = cond
		i := 0
		var phis []*ssa.Phi
		var vals []Value
		for ; i < len(blk.Instrs); i++ {
			p, isPhi := blk.Instrs[i].(*ssa.Phi)
			if !isPhi {
				break
			}
			for k, pb := range blk.Preds {
				if pb == prev {
					phis = append(phis, p)
					vals = append(vals, e.val(f, p.Edges[k]))
					break
				}
			}
		}
		for k, p := range phis {
			over[p] = vals[k]
		}
		for ; i < len(blk.Instrs); i++ {
			e.instrs++
			switch x := blk.Instrs[i].(type) {
			case *ssa.If:
				cc := e.val(f, x.Cond).(*Term)
				if !cc.isFalse() {
					explore(blk.Succs[0], blk, e.tb.And(cond, cc), cloneOver(over), depth+1)
				}
				if !cc.isTrue() {
					explore(blk.Succs[1], blk, e.tb.And(cond, e.tb.Not(cc)), cloneOver(over), depth+1)
				}
				return
			case *ssa.Jump:
				explore(blk.Succs[0], blk, cond, over, depth+1)
				return
			case *ssa.Return:
				if join != nil {
					panic(specAbort{"return inside joined region"})
				}
				f.over = append(savedOver, over)
				paths = append(paths, mergePath{cond: cond, ret: e.retVal(f, x)})
				return
			case *ssa.Panic:
				panic(specAbort{"panic in region"})
			case *ssa.RunDefers:
				if len(f.defers) > 0 {
					panic(specAbort{"defers"})
				}
			default:
				e.step(f, x)
			}
		}
	}
	if !c.isFalse() {
		explore(b.Succs[0], b, c, map[ssa.Value]Value{}, 0)
	}
	if !c.isTrue() {
		explore(b.Succs[1], b, e.tb.Not(c), map[ssa.Value]Value{}, 0)
	}
	if len(paths) == 0 {
		panic(specAbort{"no paths"})
	}
	obl := e.specObl
	if join == nil {
		// merge return values
		ret = paths[len(paths)-1].ret
		for i := len(paths) - 2; i >= 0; i-- {
			ret = e.mergeVal(paths[i].cond, paths[i].ret, ret)
		}
	} else {
		type pv struct {
			p *ssa.Phi
			v Value
		}
		var out []pv
		for _, in := range join.Instrs {
			p, isPhi := in.(*ssa.Phi)
			if !isPhi {
				break
			}
			var acc Value
			for i := len(paths) - 1; i >= 0; i-- {
				pt := paths[i]
				f.over = append(savedOver, pt.over)
				var v Value
				found := false
				for k, pb := range join.Preds {
					if pb == pt.prev {
						v = e.val(f, p.Edges[k])
						found = true
						break
					}
				}
				if !found {
					panic(specAbort{"phi edge"})
				}
				if acc == nil && i == len(paths)-1 {
					acc = v
				} else {
					acc = e.mergeVal(pt.cond, v, acc)
				}
			}
			out = append(out, pv{p, acc})
		}
		f.over = savedOver
		for _, o := range out {
			e.setv(f, o.p, o.v)
		}
	}
	// success: leave speculative mode, discharge the collected obligations
	e.spec--
	f.over = savedOver
	e.specObl, e.specGuard = savedObl, savedGuard
	for _, o := range obl {
		e.check(e.tb.Implies(o.guard, o.cond), "panic", o.what, o.pos)
	}
	e.spec++ // balanced by the deferred decrement
	return join, ret, true
}

func cloneOver(m map[ssa.Value]Value) map[ssa.Value]Value {
	c := make(map[ssa.Value]Value, len(m)+4)
	for k, v := range m {
		c[k] = v
	}
	return c
}

// mergeVal builds ite(c, a, b) for scalars; identical non-scalars pass through.
func (e *Exec) mergeVal(c *Term, a, b Value) Value {
	switch x := a.(type) {
	case *Term:
		y, ok := b.(*Term)
		if !ok || x.w != y.w {
			panic(specAbort{"merge kinds"})
		}
		return e.tb.Ite(c, x, y)
	case Tuple:
		y, ok := b.(Tuple)
		if !ok || len(x) != len(y) {
			panic(specAbort{"merge tuple"})
		}
		r := make(Tuple, len(x))
		for i := range x {
			r[i] = e.mergeVal(c, x[i], y[i])
		}
		return r
	case StructV:
		y, ok := b.(StructV)
		if !ok || len(x) != len(y) {
			panic(specAbort{"merge struct"})
		}
		r := make(StructV, len(x))
		for i := range x {
			r[i] = e.mergeVal(c, x[i], y[i])
		}
		return r
	case ArrV:
		y, ok := b.(ArrV)
		if !ok || len(x) != len(y) {
			panic(specAbort{"merge array"})
		}
		r := make(ArrV, len(x))
		for i := range x {
			r[i] = e.mergeVal(c, x[i], y[i])
		}
		return r
	case nil:
		if b == nil {
			return nil
		}
	case Iface:
		if y, ok := b.(Iface); ok {
			if x.t == nil && y.t == nil {
				return x
			}
			if x.t != nil && y.t != nil && e.valEq(x, y, nil).isTrue() {
				return x
			}
		}
	case *Ptr:
		if y, ok := b.(*Ptr); ok && e.valEq(x, y, nil).isTrue() {
			return x
		}
	case *Slice:
		// slices/strings are only merged when identical: differing headers are
		// cheaper to fork on (lengths stay concrete on each path)
		if y, ok := b.(*Slice); ok && x.b == y.b && x.c == y.c && sameIntPath(x.cpath, y.cpath) && x.off == y.off && x.len == y.len && x.cap == y.cap {
			return x
		}
	case *Str:
		if y, ok := b.(*Str); ok && x.b == y.b && x.off == y.off && x.len == y.len {
			return x
		}
	}
	panic(specAbort{"merge of non-scalars"})
}

func sameIntPath(a, b []int) bool {
	if len(a) != len(b) {
		return false
	}
	for i := range a {
		if a[i] != b[i] {
			return false
		}
	}
	return true
}

// pureFn: may this function be called during speculation?  Any function is
// tried; side effects inside abort the speculation dynamically.
func (g *Engine) pureFn(fn *ssa.Function) bool {
	return fn.Blocks != nil && len(fn.Blocks) <= 24
}

var _ = token.NoPos
