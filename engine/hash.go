// Abstract digests (crypto/sha1, sha256, md5) and the abstract pooled HMAC.
// A digest's state is the byte sequence written so far; Sum appends
// UF_alg(sequence).  Functional consistency comes from ufConstraints.
package main

import (
	"go/token"
	"go/types"

	"golang.org/x/tools/go/ssa"
)

type AbsHash struct {
	alg   string
	size  int
	block int
	msize int // MarshalBinary length
	data  *BObj
	n     *Term
}

type AbsMac struct {
	key  byteSeq
	data *BObj
	n    *Term
}

type marshalSnap struct {
	alg  string
	data *BObj
	logn int
	n    *Term
	mlog int // log length of the marshal object right after creation
}

var notHandled = &struct{ x int }{}

func (e *Exec) newAbsHash(alg string) *AbsHash {
	h := &AbsHash{alg: alg, n: e.tb.K(64, 0)}
	switch alg {
	case "sha1":
		h.size, h.block, h.msize = 20, 64, 96
	case "sha256":
		h.size, h.block, h.msize = 32, 64, 108
	case "md5":
		h.size, h.block, h.msize = 16, 64, 92
	}
	h.data = e.newBObj(e.tb.K(64, 1<<40), -1, "hash-input")
	return h
}

func (e *Exec) hashWrite(data *BObj, n *Term, p Value) *Term {
	switch s := p.(type) {
	case *Slice:
		if s.isNil() {
			return n
		}
		e.sliceCopyTo(data, n, s, s.len)
		return e.tb.Bin(OAdd, n, s.len)
	case *Str:
		if s.b == nil {
			return n
		}
		e.bcopy(data, n, s.b, s.off, s.len)
		return e.tb.Bin(OAdd, n, s.len)
	}
	e.unsupported("hash write of %T", p)
	return n
}

// digestSlice materialises a w-bit digest as a fresh byte slice.
func (e *Exec) digestSlice(d *Term, n int) *Slice {
	o := e.newBObj(e.tb.K(64, uint64(n)), n, "digest")
	for i := 0; i < n; i++ {
		e.bstore(o, e.tb.K(64, uint64(i)), e.tb.Extract(d, 8*(n-1-i), 8))
	}
	return &Slice{b: o, off: e.tb.K(64, 0), len: e.tb.K(64, uint64(n)), cap: e.tb.K(64, uint64(n)), elem: types.Typ[types.Uint8]}
}

func (g *Engine) registerHashIntrinsics() {
	I := g.intr
	byteSlice := types.NewSlice(types.Typ[types.Uint8])
	digestType := func(pkg string) types.Type {
		if p := g.prog.ImportedPackage(pkg); p != nil {
			if t := p.Type("digest"); t != nil {
				return types.NewPointer(t.Type())
			}
		}
		return nil
	}
	for _, alg := range []struct{ pkg, name string }{{"crypto/sha1", "sha1"}, {"crypto/sha256", "sha256"}, {"crypto/md5", "md5"}} {
		alg := alg
		dt := digestType(alg.pkg)
		if dt == nil {
			continue
		}
		I[alg.pkg+".New"] = func(e *Exec, fn *ssa.Function, a []Value, pos token.Pos) Value {
			e.allocEvent(e.eng.pos(pos) + " " + alg.pkg + ".New")
			return Iface{t: dt, v: e.newAbsHash(alg.name)}
		}
		recv := "(*" + alg.pkg + ".digest)."
		I[recv+"Write"] = func(e *Exec, fn *ssa.Function, a []Value, pos token.Pos) Value {
			h := a[0].(*AbsHash)
			h.n = e.hashWrite(h.data, h.n, a[1])
			return Tuple{a[1].(*Slice).len, Iface{}}
		}
		I[recv+"Sum"] = func(e *Exec, fn *ssa.Function, a []Value, pos token.Pos) Value {
			h := a[0].(*AbsHash)
			d := e.ufApply(h.alg, h.size*8, byteSeq{obj: h.data, logn: len(h.data.log), off: e.tb.K(64, 0), len: h.n})
			return e.appendOp(a[1], e.digestSlice(d, h.size), byteSlice, pos)
		}
		I[recv+"Reset"] = func(e *Exec, fn *ssa.Function, a []Value, pos token.Pos) Value {
			h := a[0].(*AbsHash)
			h.n = e.tb.K(64, 0)
			h.data = e.newBObj(e.tb.K(64, 1<<40), -1, "hash-input")
			return nil
		}
		I[recv+"Size"] = func(e *Exec, fn *ssa.Function, a []Value, pos token.Pos) Value {
			return e.tb.K(64, uint64(a[0].(*AbsHash).size))
		}
		I[recv+"BlockSize"] = func(e *Exec, fn *ssa.Function, a []Value, pos token.Pos) Value {
			return e.tb.K(64, uint64(a[0].(*AbsHash).block))
		}
		I[recv+"MarshalBinary"] = func(e *Exec, fn *ssa.Function, a []Value, pos token.Pos) Value {
			h := a[0].(*AbsHash)
			e.allocEvent(e.eng.pos(pos) + " MarshalBinary")
			o := e.newBObj(e.tb.K(64, uint64(h.msize)), h.msize, "marshal")
			o.base = e.tb.FreshArr("msh") // opaque content
			if e.marshals == nil {
				e.marshals = map[*BObj]*marshalSnap{}
			}
			e.marshals[o] = &marshalSnap{alg: h.alg, data: h.data, logn: len(h.data.log), n: h.n, mlog: 0}
			k := e.tb.K(64, uint64(h.msize))
			return Tuple{&Slice{b: o, off: e.tb.K(64, 0), len: k, cap: k, elem: types.Typ[types.Uint8]}, Iface{}}
		}
		I[recv+"UnmarshalBinary"] = func(e *Exec, fn *ssa.Function, a []Value, pos token.Pos) Value {
			h := a[0].(*AbsHash)
			s := a[1].(*Slice)
			var snap *marshalSnap
			if s.b != nil {
				snap = e.marshals[s.b]
			}
			ok := snap != nil && snap.alg == h.alg && len(s.b.log) == snap.mlog && s.off.isConst() && s.off.k == 0 &&
				s.len.isConst() && int(s.len.k) == h.msize
			if !ok {
				// bytes that are not an untouched MarshalBinary result: the real digest rejects them
				// (magic prefix / length check); a modified-but-valid state is outside the model
				e.nobj++
				return e.opaqueError("hash: invalid hash state identifier")
			}
			h.data = e.newBObj(e.tb.K(64, 1<<40), -1, "hash-input")
			h.data.log = append(h.data.log, logEntry{d: e.tb.K(64, 0), n: snap.n, so: e.tb.K(64, 0), src: snap.data, srclog: snap.logn})
			h.n = snap.n
			return Iface{}
		}
	}

	// ---- abstract pooled HMAC (used by the stun package's integrity code; the pool itself is C18's subject) ----
	hp := "github.com/pion/stun/v3/internal/hmac"
	var hmacPtr types.Type
	if p := g.prog.ImportedPackage(hp); p != nil {
		if t := p.Type("hmac"); t != nil {
			hmacPtr = types.NewPointer(t.Type())
		}
	}
	if hmacPtr != nil && g.pkg.Pkg.Path() != hp {
		I[hp+".AcquireSHA1"] = func(e *Exec, fn *ssa.Function, a []Value, pos token.Pos) Value {
			m := &AbsMac{key: e.seqOfSlice(a[0].(*Slice)), n: e.tb.K(64, 0)}
			m.data = e.newBObj(e.tb.K(64, 1<<40), -1, "hmac-input")
			return Iface{t: hmacPtr, v: m}
		}
		I[hp+".PutSHA1"] = func(e *Exec, fn *ssa.Function, a []Value, pos token.Pos) Value {
			if _, ok := a[0].(Iface).v.(*AbsMac); ok {
				return nil
			}
			return notHandled
		}
		I["(*"+hp+".hmac).Write"] = func(e *Exec, fn *ssa.Function, a []Value, pos token.Pos) Value {
			m, ok := a[0].(*AbsMac)
			if !ok {
				return notHandled
			}
			m.n = e.hashWrite(m.data, m.n, a[1])
			return Tuple{a[1].(*Slice).len, Iface{}}
		}
		I["(*"+hp+".hmac).Sum"] = func(e *Exec, fn *ssa.Function, a []Value, pos token.Pos) Value {
			m, ok := a[0].(*AbsMac)
			if !ok {
				return notHandled
			}
			d := e.ufApply("hmacsha1", 160, m.key, byteSeq{obj: m.data, logn: len(m.data.log), off: e.tb.K(64, 0), len: m.n})
			return e.appendOp(a[1], e.digestSlice(d, 20), byteSlice, pos)
		}
	}

	// fmt.Fprint(w, string...) into an abstract hash (NewLongTermIntegrity)
	I["fmt.Fprint"] = func(e *Exec, fn *ssa.Function, a []Value, pos token.Pos) Value {
		w := a[0].(Iface)
		h, ok := w.v.(*AbsHash)
		if !ok {
			e.unsupported("fmt.Fprint to %T", w.v)
		}
		args := a[1].(*Slice)
		total := e.tb.K(64, 0)
		if !args.isNil() {
			arr := e.cellArr(args)
			for i := uint64(0); i < args.len.k; i++ {
				s, isStr := arr[args.off.k+i].(Iface).v.(*Str)
				if !isStr {
					e.unsupported("fmt.Fprint of non-string")
				}
				h.n = e.hashWrite(h.data, h.n, s)
				total = e.tb.Bin(OAdd, total, s.len)
			}
		}
		return Tuple{total, Iface{}}
	}
	// fmt.Fprintf(w, format) with no arguments into an abstract hash: the format is written verbatim
	// iff it contains no '%'; otherwise fmt rewrites it (e.g. "%!s(MISSING)"): modelled as arbitrary bytes
	I["fmt.Fprintf"] = func(e *Exec, fn *ssa.Function, a []Value, pos token.Pos) Value {
		w := a[0].(Iface)
		h, ok := w.v.(*AbsHash)
		if !ok {
			e.unsupported("fmt.Fprintf to %T", w.v)
		}
		format := a[1].(*Str)
		if args := a[2].(*Slice); !args.isNil() && !(args.len.isConst() && args.len.k == 0) {
			e.unsupported("fmt.Fprintf with arguments")
		}
		hasPct := e.tb.False()
		for i := 0; i < e.strMax(format); i++ {
			ki := e.tb.K(64, uint64(i))
			hasPct = e.tb.Or(hasPct, e.tb.And(e.tb.Cmp(OSlt, ki, format.len), e.tb.Cmp(OEq, e.strByte(format, ki), e.tb.K(8, '%'))))
		}
		if e.branch(hasPct) {
			n := e.tb.Conv(e.tb.Fresh("v", 6), 64, false)
			o := e.newBObj(n, 63, "fmt-rewritten")
			o.base = e.tb.FreshArr("fmt")
			h.n = e.hashWrite(h.data, h.n, &Slice{b: o, off: e.tb.K(64, 0), len: n, cap: n})
			return Tuple{n, Iface{}}
		}
		h.n = e.hashWrite(h.data, h.n, format)
		return Tuple{format.len, Iface{}}
	}
	I["strings.Join"] = func(e *Exec, fn *ssa.Function, a []Value, pos token.Pos) Value {
		elems := a[0].(*Slice)
		sep := a[1].(*Str)
		var r Value = e.mkStr("")
		if elems.isNil() {
			return r
		}
		arr := e.cellArr(elems)
		for i := uint64(0); i < elems.len.k; i++ {
			if i > 0 {
				r = e.strConcat(r.(*Str), sep)
			}
			r = e.strConcat(r.(*Str), arr[elems.off.k+i].(*Str))
		}
		return r
	}
}
