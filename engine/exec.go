// The symbolic interpreter over go/ssa.
package main

import (
	"fmt"
	"go/constant"
	"go/token"
	"go/types"
	"os"
	"sort"
	"strings"

	"golang.org/x/tools/go/ssa"
)

// pathEnd is thrown (Go panic) to end the current path.
type pathEnd struct{ why string }

// specAbort aborts a speculative (if-conversion) evaluation.
type specAbort struct{ why string }

type Violation struct {
	Kind   string // assert | panic | deadlock | ...
	Label  string
	Pos    string
	Values []ReplayVal
	Path   []int
}

type obligation struct {
	guard *Term
	cond  *Term
	what  string
	pos   token.Pos
}

type frame struct {
	fn      *ssa.Function
	env     map[ssa.Value]Value
	over    []map[ssa.Value]Value // speculation overlays (innermost last)
	defers  []func()
	visits  map[*ssa.BasicBlock]int
	caller  *frame
	callPos token.Pos
	cutDone bool // loop-cut induction: the header has been havocked in this activation
	loopSig map[*ssa.BasicBlock]loopSig
}

// loopSig: the state at a loop header when it was last reached through a back edge: the loop-carried SSA
// values, the number of state-changing events and of nondeterministic inputs so far.  Reaching the header
// again with the same signature means that the iteration changed nothing: a concrete run on this path
// repeats it for ever (execution is deterministic), which is reported as non-termination.
type loopSig struct {
	vals    []Value
	effects int
	inputs  int
}

func sameValue(a, b Value) bool {
	ta, ok1 := a.(*Term)
	tb, ok2 := b.(*Term)
	if ok1 && ok2 {
		return ta == tb // hash-consed
	}
	return false
}

func (e *Exec) noProgress(f *frame, b *ssa.BasicBlock, vals []Value, pos token.Pos) {
	sig := loopSig{vals: append([]Value{}, vals...), effects: e.effects, inputs: len(e.inputs)}
	if f.loopSig == nil {
		f.loopSig = map[*ssa.BasicBlock]loopSig{}
	}
	if old, ok := f.loopSig[b]; ok && old.effects == sig.effects && old.inputs == sig.inputs && len(old.vals) == len(sig.vals) {
		same := true
		for i := range sig.vals {
			same = same && sameValue(old.vals[i], sig.vals[i])
		}
		if same {
			e.fail("nontermination", "a loop iteration in "+f.fn.Name()+" left the loop state unchanged: the loop never exits on this path", pos, e.tb.True())
			panic(pathEnd{"nontermination"})
		}
	}
	f.loopSig[b] = sig
}

type Exec struct {
	eng *Engine
	tb  *TB
	sol *Solver

	pc     []*Term
	prefix []int
	dec    []int
	work   [][]int

	nobj    int
	globals map[*ssa.Global]*Obj
	inited  map[*ssa.Package]bool

	spec       int // >0: speculative mode
	specCalls  int
	specObl    []obligation
	specGuard  *Term
	instrs     int
	depth      int
	unwind     int
	unwindCut  bool // true: exceeding the unwinding limit is an assumption
	effects    int  // number of state-changing events so far (stores, map updates, impure models, channel operations, ...)
	stepLimit  int  // vxStepBudget: absolute instruction count at which the path is reported as not terminating (0 = off)
	stepBudget int
	recLimit   int
	viol       []Violation
	reach      map[string]bool
	asserts    map[string]int // label -> discharged count
	nAssertQ   int
	nBranchQ   int
	cuts       int
	unknowns   int
	inputs     []inputRec // vx value calls in order
	funcs      map[string]bool
	mutex      map[string]*mutexState
	lockLog    []string
	pools      map[string][]Value
	ufApps     map[string][]*ufApp
	goroutines []goRec
	hashes     int
	curFrame   *frame
	guards     []guardRule
	pdoms      map[*ssa.Function][]int
	notes      []string
	stack      []string
	marshals   map[*BObj]*marshalSnap
	recCount   map[*ssa.Function]int
	condWaits  int
	records    map[string]Value
	loopCuts   map[*ssa.Function]*loopCut

	sharedWatch bool           // vxSharedWatch: writes to package-level variables need a held lock
	lastPos     token.Pos      // position of the instruction being executed
	joinModel   bool           // vxJoinModel: WaitGroups count, goroutines run lazily at Wait
	wgCount     map[string]int // WaitGroup counters (join model)
	goLive      int            // goroutines spawned under the join model that have not finished

	allocWatch  int      // >0: inside a vxAllocs region
	allocEvents []string // heap-allocation sites executed inside regions on this path
}

type goRec struct {
	fn   Value
	args []Value
}

type mutexState struct {
	held    int
	readers int
}

type guardRule struct {
	typ, field, mux string
}

func (e *Exec) fail(kind, label string, pos token.Pos, cond *Term) {
	// cond: the violated condition's negation is satisfiable under pc (already established)
	if len(e.allocEvents) > 0 {
		label += " [heap allocations at: " + strings.Join(e.allocEvents, "; ") + "]"
	}
	v := Violation{Kind: kind, Label: label, Pos: e.eng.pos(pos), Path: append([]int{}, e.dec...)}
	if cond != nil {
		v.Values = e.extractModel(cond)
	}
	e.viol = append(e.viol, v)
}

// sat asks whether pc ∧ extra is satisfiable.
func (e *Exec) sat(extra *Term) string {
	if extra.isFalse() {
		return "unsat"
	}
	s := e.tb.NewScript()
	for _, p := range e.pc {
		s.Assert(p)
	}
	s.Assert(extra)
	e.ufConstraints(s)
	r, _ := e.sol.Check(s.String(), nil)
	return r
}

func (e *Exec) assume(c *Term) {
	if c.isTrue() {
		return
	}
	if c.isFalse() {
		panic(pathEnd{"assume-false"})
	}
	e.pc = append(e.pc, c)
}

// check: cond must hold on every extension of the current path.
func (e *Exec) check(cond *Term, kind, what string, pos token.Pos) {
	if cond.isTrue() {
		return
	}
	if e.spec > 0 {
		e.specObl = append(e.specObl, obligation{e.specGuard, cond, kind + ":" + what, pos})
		return
	}
	if len(e.dec) < len(e.prefix) {
		// discharged by the run that created this prefix
		e.assume(cond)
		return
	}
	e.nAssertQ++
	e.sol.Tag = kind + ":" + what + "@" + e.eng.pos(pos)
	r := e.sat(e.tb.Not(cond))
	e.sol.Tag = ""
	switch r {
	case "unsat":
		// proven: implied by the path condition.  Safety obligations are kept as cheap lemmas;
		// harness assertions (large, with their own witness variables) are not re-asserted.
		if kind != "assert" && os.Getenv("GOSYMX_NOLEMMA") == "" {
			e.assume(cond)
		}
	case "sat":
		e.fail(kind, what, pos, e.tb.Not(cond))
		if e.sat(cond) != "sat" {
			panic(pathEnd{"violation"})
		}
		e.assume(cond)
	default:
		e.unknowns++
		e.notes = append(e.notes, fmt.Sprintf("unknown on %s %s at %s", kind, what, e.eng.pos(pos)))
		e.assume(cond)
	}
}

// branch decides a symbolic two-way branch.
func (e *Exec) branch(c *Term) bool {
	if c.isConst() {
		return c.k == 1
	}
	if e.spec > 0 {
		panic(specAbort{"branch"})
	}
	i := len(e.dec)
	var d bool
	if i < len(e.prefix) {
		d = e.prefix[i] == 1
	} else {
		e.nBranchQ++
		e.sol.Tag = "branch in " + strings.Join(e.stack, ">")
		rt := e.sat(c)
		if rt == "unknown" {
			e.unknowns++
		}
		if rt == "unsat" {
			d = false
		} else {
			rf := e.sat(e.tb.Not(c))
			if rf == "unknown" {
				e.unknowns++
			}
			if rf == "unsat" {
				d = true
			} else {
				alt := append(append([]int{}, e.dec...), 0)
				e.work = append(e.work, alt)
				d = true
			}
		}
	}
	if d {
		e.dec = append(e.dec, 1)
		e.assume(c)
	} else {
		e.dec = append(e.dec, 0)
		e.assume(e.tb.Not(c))
	}
	return d
}

// choose forks n ways without the solver.
func (e *Exec) choose(n int) int {
	if n <= 1 {
		return 0
	}
	if e.spec > 0 {
		panic(specAbort{"choose"})
	}
	i := len(e.dec)
	if i < len(e.prefix) {
		d := e.prefix[i]
		e.dec = append(e.dec, d)
		return d
	}
	for k := n - 1; k >= 1; k-- {
		alt := append(append([]int{}, e.dec...), k)
		e.work = append(e.work, alt)
	}
	e.dec = append(e.dec, 0)
	return 0
}

func (e *Exec) unsupported(format string, a ...interface{}) {
	if e.spec > 0 {
		panic(specAbort{"unsupported"})
	}
	panic(unsupported{fmt.Sprintf(format, a...) + " [" + strings.Join(e.stack, " > ") + "]"})
}

// ---------- loop-cut induction ----------

// loopCut: the loop with header block `header` of one function is not unrolled.  On first arrival the
// harness hook `base` checks the invariant on the real entry state, `havoc` returns an arbitrary state
// satisfying the invariant (assigned to the header's phi nodes; the hook also havocs loop-written
// memory), one arbitrary iteration runs on the real code, and on the next arrival `step` checks that
// the invariant is re-established (and progress was made); that path ends there.  The exit edge taken
// from the havocked header continues into the caller's post-conditions.
type loopCut struct {
	header            *ssa.BasicBlock
	phis              []*ssa.Phi
	base, havoc, step *ssa.Function
}

func (e *Exec) loopCutAt(f *frame, cut *loopCut) {
	args := []Value{e.val(f, f.fn.Params[0])}
	for _, p := range cut.phis {
		args = append(args, e.val(f, p))
	}
	if !f.cutDone {
		f.cutDone = true
		e.callFunc(cut.base, args, nil, cut.header.Instrs[0].Pos())
		res := e.callFunc(cut.havoc, args[:1], nil, cut.header.Instrs[0].Pos())
		var vals []Value
		if t, ok := res.(Tuple); ok {
			vals = t
		} else {
			vals = []Value{res}
		}
		if len(vals) != len(cut.phis) {
			e.unsupported("loop-cut: havoc hook returns %d values for %d loop variables", len(vals), len(cut.phis))
		}
		for i, p := range cut.phis {
			e.setv(f, p, vals[i])
		}
		return
	}
	e.callFunc(cut.step, args, nil, cut.header.Instrs[0].Pos())
	panic(pathEnd{"loop-cut"})
}

// ---------- value lookup ----------

func (e *Exec) val(f *frame, v ssa.Value) Value {
	switch x := v.(type) {
	case *ssa.Const:
		return e.constVal(x)
	case *ssa.Global:
		return &Ptr{obj: e.global(x)}
	case *ssa.Function:
		return &Closure{fn: x}
	case *ssa.Builtin:
		return x
	}
	for i := len(f.over) - 1; i >= 0; i-- {
		if r, ok := f.over[i][v]; ok {
			return r
		}
	}
	r, ok := f.env[v]
	if !ok {
		panic(fmt.Sprintf("no value for %s (%T) in %s", v.Name(), v, f.fn))
	}
	return r
}

func (e *Exec) setv(f *frame, v ssa.Value, x Value) {
	if n := len(f.over); n > 0 {
		f.over[n-1][v] = x
		return
	}
	f.env[v] = x
}

func (e *Exec) constVal(x *ssa.Const) Value {
	t := x.Type()
	if x.Value == nil {
		return e.zero(t)
	}
	switch x.Value.Kind() {
	case constant.String:
		return e.mkStr(constant.StringVal(x.Value))
	case constant.Bool:
		return e.tb.Bool(constant.BoolVal(x.Value))
	case constant.Int:
		w := bvWidth(t)
		if w < 0 {
			if b, ok := t.Underlying().(*types.Basic); ok && b.Info()&types.IsFloat != 0 {
				f, _ := constant.Float64Val(x.Value)
				return FloatV(f)
			}
			e.unsupported("int const of type %s", t)
		}
		if i, ok := constant.Int64Val(x.Value); ok {
			return e.tb.K(w, uint64(i))
		}
		u, _ := constant.Uint64Val(x.Value)
		return e.tb.K(w, u)
	case constant.Float:
		f, _ := constant.Float64Val(x.Value)
		return FloatV(f)
	}
	e.unsupported("const kind %v", x.Value.Kind())
	return nil
}

func (e *Exec) global(g *ssa.Global) *Obj {
	if o, ok := e.globals[g]; ok {
		return o
	}
	et := g.Type().(*types.Pointer).Elem()
	o := e.newObj(e.zero(et), et, "global:"+g.String())
	e.globals[g] = o
	if g.Pkg == e.eng.pkg && !strings.HasPrefix(g.Name(), "vx") {
		// storage of a package-level variable of the package under test (see sharedWrite)
		o.shared = g.Name()
		markShared(o.v, g.Name())
	}
	if g.Pkg != nil && !e.eng.initPkg[g.Pkg.Pkg.Path()] {
		// package whose init we do not run: synthesise opaque sentinel errors
		if types.Identical(et, e.eng.errorType) {
			o.v = e.opaqueError(g.String())
		}
	}
	return o
}

// opaqueError makes a distinct non-nil error value of dynamic type *errors.errorString.
func (e *Exec) opaqueError(msg string) Value {
	st := e.eng.errorStringType
	obj := e.newObj(StructV{e.mkStr(msg)}, st, "err:"+msg)
	return Iface{t: types.NewPointer(st), v: &Ptr{obj: obj}}
}

// pureIntrinsic: intrinsics that may run during speculative (if-conversion) evaluation.
// stateFreeModel: exact models that neither read nor write mutable engine state (for the no-progress check)
func stateFreeModel(name string) bool {
	switch name {
	case "internal/bytealg.IndexByteString", "internal/bytealg.IndexByte", "internal/bytealg.CountString",
		"internal/bytealg.LastIndexByteString", "internal/bytealg.Count", "errors.Is", "errors.As":
		return true
	}
	return false
}

func pureIntrinsic(fn *ssa.Function, name string) bool {
	if strings.HasPrefix(fn.Name(), "vx") {
		return true // the vx wrapper has its own whitelist
	}
	switch name {
	case "(time.Time).Add", "(time.Time).Sub", "(time.Time).Before", "(time.Time).After", "(time.Time).Equal",
		"(time.Time).IsZero", "(time.Time).UnixNano", "fmt.Sprintf", "fmt.Sprint", "fmt.Sprintln":
		return true
	}
	if fn.Name() == "init" {
		return true
	}
	return false
}

// ---------- calls ----------

func (e *Exec) callValue(fv Value, args []Value, pos token.Pos) Value {
	switch c := fv.(type) {
	case *Closure:
		if c == nil {
			e.check(e.tb.False(), "panic", "call of nil function", pos)
			panic(pathEnd{"nil-call"})
		}
		if c.recv != nil {
			args = append([]Value{c.recv}, args...)
		}
		return e.callFunc(c.fn, args, c.free, pos)
	case *Native:
		e.effects++
		return c.fn(e, args)
	}
	e.unsupported("call of %T", fv)
	return nil
}

func (e *Exec) callFunc(fn *ssa.Function, args []Value, free []Value, pos token.Pos) Value {
	name := fn.String()
	if h := e.eng.lookupIntrinsic(fn, name); h != nil {
		if e.spec > 0 && !pureIntrinsic(fn, name) {
			// models with side effects (hash state, mutexes, pools, UF applications, ...) must not run speculatively
			panic(specAbort{"intrinsic with side effects"})
		}
		if !pureIntrinsic(fn, name) && !stateFreeModel(name) {
			e.effects++
		}
		if e.allocWatch > 0 && allocatingCall(name) {
			e.allocEvent(e.eng.pos(pos) + " call of " + name)
		}
		if r := h(e, fn, args, pos); r != Value(notHandled) {
			return r
		}
	}
	if fn.Blocks == nil {
		e.unsupported("function without body: %s", name)
	}
	if e.spec > 0 && (!e.eng.pureFn(fn) || e.specCalls >= 3) {
		panic(specAbort{"impure call"})
	}
	if e.spec > 0 {
		e.specCalls++
		defer func() { e.specCalls-- }()
	}
	e.funcs[name] = true
	e.depth++
	e.stack = append(e.stack, fn.Name())
	e.recCount[fn]++
	defer func() { e.recCount[fn]-- }()
	if e.recCount[fn] > e.eng.cfg.SelfRecLimit && e.spec == 0 {
		e.fail("recursion", fmt.Sprintf("%s re-entered %d times on one call stack (unbounded recursion)", name, e.recCount[fn]), pos, e.tb.True())
		panic(pathEnd{"recursion"})
	}
	if e.depth > e.recLimit {
		// recursion/unbounded depth
		e.depth--
		e.stack = e.stack[:len(e.stack)-1]
		e.fail("recursion", fmt.Sprintf("call depth exceeds %d in %s", e.recLimit, name), pos, e.tb.True())
		panic(pathEnd{"depth"})
	}
	f := &frame{fn: fn, env: map[ssa.Value]Value{}, visits: map[*ssa.BasicBlock]int{}, caller: e.curFrame, callPos: pos}
	for i, p := range fn.Params {
		f.env[p] = args[i]
	}
	for i, fv := range fn.FreeVars {
		f.env[fv] = free[i]
	}
	saved := e.curFrame
	e.curFrame = f
	r := e.run(f)
	e.curFrame = saved
	e.depth--
	e.stack = e.stack[:len(e.stack)-1]
	return r
}

func (e *Exec) run(f *frame) Value {
	var prev *ssa.BasicBlock
	b := f.fn.Blocks[0]
	skipPhis := false
	for {
		var next *ssa.BasicBlock
		i := 0
		if !skipPhis {
			// parallel phi assignment
			var phis []*ssa.Phi
			var vals []Value
			for ; i < len(b.Instrs); i++ {
				p, ok := b.Instrs[i].(*ssa.Phi)
				if !ok {
					break
				}
				for k, pb := range b.Preds {
					if pb == prev {
						phis = append(phis, p)
						vals = append(vals, e.val(f, p.Edges[k]))
						break
					}
				}
			}
			for k, p := range phis {
				e.setv(f, p, vals[k])
			}
			if e.spec == 0 && prev != nil && len(phis) == i && b.Dominates(prev) && (len(e.loopCuts) == 0 || e.loopCuts[f.fn] == nil) {
				pos := token.NoPos
				if len(b.Instrs) > 0 {
					pos = b.Instrs[len(b.Instrs)-1].Pos()
				}
				e.noProgress(f, b, vals, pos)
			}
		} else {
			for ; i < len(b.Instrs); i++ {
				if _, ok := b.Instrs[i].(*ssa.Phi); !ok {
					break
				}
			}
			skipPhis = false
		}
		if e.spec == 0 && len(e.loopCuts) > 0 {
			if cut := e.loopCuts[f.fn]; cut != nil && b == cut.header {
				e.loopCutAt(f, cut)
			}
		}
		for ; i < len(b.Instrs); i++ {
			in := b.Instrs[i]
			e.instrs++
			if e.stepLimit > 0 && e.instrs > e.stepLimit {
				e.stepLimit = 0
				e.fail("nontermination", fmt.Sprintf("more than %d SSA instructions executed since vxStepBudget on one path: the call does not terminate within the time bound", e.stepBudget), in.Pos(), e.tb.True())
				panic(pathEnd{"nontermination"})
			}
			if e.instrs > e.eng.cfg.MaxInstrs {
				e.notes = append(e.notes, "instruction budget exceeded")
				panic(pathEnd{"budget"})
			}
			switch x := in.(type) {
			case *ssa.If:
				c := e.val(f, x.Cond).(*Term)
				if !c.isConst() && !e.eng.cfg.NoMerge {
					if j, ret, ok := e.mergeRegion(f, b, c); ok {
						if j == nil {
							return ret
						}
						prev, next = nil, j
						skipPhis = true
						break
					}
				}
				if !c.isConst() {
					// unwinding: count symbolic evaluations of this condition in this activation
					f.visits[b]++
					if f.visits[b] > e.unwind+1 {
						e.cuts++
						if e.unwindCut {
							panic(pathEnd{"unwind-cut"})
						}
						e.notes = append(e.notes, fmt.Sprintf("UNWIND-INSUFFICIENT at %s (limit %d)", e.eng.pos(x.Cond.Pos()), e.unwind))
						panic(pathEnd{"unwind-insufficient"})
					}
				}
				if e.branch(c) {
					next = b.Succs[0]
				} else {
					next = b.Succs[1]
				}
			case *ssa.Jump:
				next = b.Succs[0]
			case *ssa.Return:
				return e.retVal(f, x)
			case *ssa.Panic:
				e.doPanic(f, x)
			default:
				e.step(f, in)
			}
			if next != nil {
				break
			}
		}
		if next == nil {
			panic("fell off block " + b.String() + " in " + f.fn.String())
		}
		if !skipPhis {
			prev = b
		}
		b = next
	}
}

func (e *Exec) retVal(f *frame, x *ssa.Return) Value {
	switch len(x.Results) {
	case 0:
		return nil
	case 1:
		return e.val(f, x.Results[0])
	}
	r := make(Tuple, len(x.Results))
	for i, v := range x.Results {
		r[i] = e.val(f, v)
	}
	return r
}

func (e *Exec) doPanic(f *frame, x *ssa.Panic) {
	if e.spec > 0 {
		panic(specAbort{"panic"})
	}
	msg := "explicit panic"
	if v, ok := e.val(f, x.X).(Iface); ok {
		if s, ok := v.v.(*Str); ok {
			if cs, ok := e.concStr(s); ok {
				msg = "panic: " + cs
			}
		} else if v.t != nil {
			msg = "panic(" + v.t.String() + ")"
		}
	}
	if len(e.dec) >= len(e.prefix) {
		e.fail("panic", msg, x.Pos(), e.tb.True())
	}
	panic(pathEnd{"panic"})
}

// ---------- instructions ----------

func (e *Exec) step(f *frame, in ssa.Instruction) {
	_ = e.tb
	if e.allocWatch > 0 {
		e.allocInstr(in)
	}
	if p := in.Pos(); p.IsValid() {
		e.lastPos = p
	}
	switch x := in.(type) {
	case *ssa.DebugRef:
	case *ssa.Alloc:
		if e.spec > 0 {
			panic(specAbort{"alloc"})
		}
		et := x.Type().(*types.Pointer).Elem()
		if at, ok := et.Underlying().(*types.Array); ok && isByteType(at.Elem()) && at.Len() > 0 {
			// standalone byte arrays (also what go/ssa makes of make([]byte, const)) are byte objects
			n := int(at.Len())
			e.setv(f, x, &Ptr{obj: e.newObj(&BArr{b: e.newBObj(e.tb.K(64, uint64(n)), n, "array"), n: n}, et, x.Comment)})
			break
		}
		e.setv(f, x, &Ptr{obj: e.newObj(e.zero(et), et, x.Comment)})
	case *ssa.FieldAddr:
		p := e.ptr(e.val(f, x.X), x.Pos())
		e.guardCheck(p, x)
		e.setv(f, x, &Ptr{obj: p.obj, path: appendPath(p.path, x.Field)})
	case *ssa.Field:
		e.setv(f, x, e.val(f, x.X).(StructV)[x.Field])
	case *ssa.IndexAddr:
		e.setv(f, x, e.indexAddr(f, x))
	case *ssa.Index:
		e.setv(f, x, e.index(f, x))
	case *ssa.Lookup:
		e.lookup(f, x)
	case *ssa.UnOp:
		e.unop(f, x)
	case *ssa.BinOp:
		e.setv(f, x, e.binop(x.Op, e.val(f, x.X), e.val(f, x.Y), x.X.Type(), x.Pos()))
	case *ssa.Store:
		if e.spec > 0 {
			panic(specAbort{"store"})
		}
		e.effects++
		e.store(e.val(f, x.Addr), e.val(f, x.Val), x.Pos())
	case *ssa.Convert:
		e.setv(f, x, e.convert(e.val(f, x.X), x.X.Type(), x.Type(), x.Pos()))
	case *ssa.ChangeType:
		e.setv(f, x, e.val(f, x.X))
	case *ssa.ChangeInterface:
		e.setv(f, x, e.val(f, x.X))
	case *ssa.MakeInterface:
		e.setv(f, x, Iface{t: x.X.Type(), v: e.val(f, x.X)})
	case *ssa.TypeAssert:
		e.typeAssert(f, x)
	case *ssa.Slice:
		e.setv(f, x, e.sliceOp(f, x))
	case *ssa.Extract:
		e.setv(f, x, e.val(f, x.Tuple).(Tuple)[x.Index])
	case *ssa.Call:
		e.setv(f, x, e.doCall(f, &x.Call, x.Pos(), x))
	case *ssa.Defer:
		e.effects++
		if e.spec > 0 {
			panic(specAbort{"defer"})
		}
		fv, args := e.prepCall(f, &x.Call, x.Pos())
		pos := x.Pos()
		f.defers = append(f.defers, func() { e.applyCall(fv, args, &x.Call, pos) })
	case *ssa.RunDefers:
		e.effects++
		for len(f.defers) > 0 {
			d := f.defers[len(f.defers)-1]
			f.defers = f.defers[:len(f.defers)-1]
			d()
		}
	case *ssa.Go:
		e.effects++
		if e.spec > 0 {
			panic(specAbort{"go"})
		}
		fv, args := e.prepCall(f, &x.Call, x.Pos())
		e.goroutines = append(e.goroutines, goRec{fv, args})
		if e.joinModel {
			e.goLive++
		}
	case *ssa.MakeSlice:
		if e.spec > 0 {
			panic(specAbort{"makeslice"})
		}
		e.setv(f, x, e.makeSlice(x.Type(), e.val(f, x.Len).(*Term), e.val(f, x.Cap).(*Term), x.Pos()))
	case *ssa.MakeMap:
		if e.spec > 0 {
			panic(specAbort{"makemap"})
		}
		mt := x.Type().Underlying().(*types.Map)
		e.nobj++
		e.setv(f, x, &MapV{id: e.nobj, kt: mt.Key(), vt: mt.Elem()})
	case *ssa.MakeChan:
		e.nobj++
		e.setv(f, x, &ChanV{id: e.nobj})
	case *ssa.MakeClosure:
		c := &Closure{fn: x.Fn.(*ssa.Function)}
		for _, b := range x.Bindings {
			c.free = append(c.free, e.val(f, b))
		}
		e.setv(f, x, c)
	case *ssa.MapUpdate:
		e.effects++
		if e.spec > 0 {
			panic(specAbort{"mapupdate"})
		}
		e.mapUpdate(e.val(f, x.Map).(*MapV), e.val(f, x.Key), e.val(f, x.Value), x.Pos())
	case *ssa.Range:
		e.setv(f, x, &rangeIter{x: e.val(f, x.X)})
	case *ssa.Next:
		e.setv(f, x, e.next(f, x))
	case *ssa.Select:
		e.effects++
		e.setv(f, x, e.selectOp(f, x))
	case *ssa.Send:
		e.effects++
		e.unsupported("channel send")
	case *ssa.SliceToArrayPointer:
		e.unsupported("slice to array pointer")
	default:
		e.unsupported("instruction %T in %s", in, f.fn)
	}
}

func (e *Exec) ptr(v Value, pos token.Pos) *Ptr {
	p, ok := v.(*Ptr)
	if !ok {
		e.unsupported("pointer expected, got %T", v)
	}
	if p == nil {
		e.check(e.tb.False(), "panic", "nil pointer dereference", pos)
		panic(pathEnd{"nil-deref"})
	}
	return p
}

func (e *Exec) load(pv Value, pos token.Pos) Value {
	p := e.ptr(pv, pos)
	if p.b != nil {
		return e.bread(p.b, len(p.b.log), p.idx)
	}
	v := getPath(p.obj.v, p.path)
	if ba, ok := v.(*BArr); ok {
		arr := make(ArrV, ba.n)
		for i := range arr {
			arr[i] = e.bread(ba.b, len(ba.b.log), e.tb.K(64, uint64(i)))
		}
		return arr
	}
	if p.sidx != nil {
		arr := v.(ArrV)
		var r *Term
		for i := len(arr) - 1; i >= 0; i-- {
			el := arr[i].(*Term)
			if r == nil {
				r = el
			} else {
				r = e.tb.Ite(e.tb.Cmp(OEq, p.sidx, e.tb.K(64, uint64(i))), el, r)
			}
		}
		return r
	}
	return v
}

// markShared tags the byte objects embedded in a global's value.
func markShared(v Value, name string) {
	switch x := v.(type) {
	case *BArr:
		x.b.shared = name
	case StructV:
		for _, f := range x {
			markShared(f, name)
		}
	case ArrV:
		for _, f := range x {
			markShared(f, name)
		}
	}
}

// sharedWrite: under vxSharedWatch a write to the storage of a package-level variable with no mutex held
// is reported: two goroutines executing the same code race on it (C18: "however many goroutines use the pool at once").
func (e *Exec) sharedWrite(name string) {
	if name == "" || !e.sharedWatch || e.spec > 0 {
		return
	}
	for _, ms := range e.mutex {
		if ms.held > 0 {
			return
		}
	}
	if len(e.dec) >= len(e.prefix) {
		e.fail("lock-discipline", "package-level variable "+name+" is written with no lock held: concurrent callers race on it", e.lastPos, e.tb.True())
	}
	panic(pathEnd{"violation"})
}

func (e *Exec) store(pv Value, v Value, pos token.Pos) {
	p := e.ptr(pv, pos)
	if p.obj != nil {
		e.sharedWrite(p.obj.shared)
	}
	if p.b != nil {
		e.bstore(p.b, p.idx, v.(*Term))
		return
	}
	if ba, ok := p.obj.v.(*BArr); ok && len(p.path) == 0 {
		for i, x := range v.(ArrV) {
			e.bstore(ba.b, e.tb.K(64, uint64(i)), x.(*Term))
		}
		return
	}
	if p.sidx != nil {
		arr := getPath(p.obj.v, p.path).(ArrV)
		n := make(ArrV, len(arr))
		for i := range arr {
			n[i] = e.tb.Ite(e.tb.Cmp(OEq, p.sidx, e.tb.K(64, uint64(i))), v.(*Term), arr[i].(*Term))
		}
		p.obj.v = setPath(p.obj.v, p.path, n)
		return
	}
	p.obj.v = setPath(p.obj.v, p.path, v)
}

func (e *Exec) idx64(v Value, t types.Type) *Term {
	return e.tb.Conv(v.(*Term), 64, isSigned(t))
}

func (e *Exec) inRange(i, n *Term) *Term {
	return e.tb.And(e.tb.Cmp(OSle, e.tb.K(64, 0), i), e.tb.Cmp(OSlt, i, n))
}

func (e *Exec) indexAddr(f *frame, x *ssa.IndexAddr) Value {
	idx := e.idx64(e.val(f, x.Index), x.Index.Type())
	switch base := e.val(f, x.X).(type) {
	case *Slice:
		e.check(e.inRange(idx, base.len), "panic", "index out of range", x.Pos())
		return e.elemPtr(base, idx)
	case *Ptr:
		p := e.ptr(base, x.Pos())
		at := x.X.Type().Underlying().(*types.Pointer).Elem().Underlying().(*types.Array)
		e.check(e.inRange(idx, e.tb.K(64, uint64(at.Len()))), "panic", "index out of range", x.Pos())
		if ba, ok := p.obj.v.(*BArr); ok && len(p.path) == 0 {
			return &Ptr{b: ba.b, idx: idx}
		}
		if idx.isConst() {
			return &Ptr{obj: p.obj, path: appendPath(p.path, int(idx.k))}
		}
		if bvWidth(at.Elem()) < 0 {
			e.unsupported("symbolic index into array of %s", at.Elem())
		}
		return &Ptr{obj: p.obj, path: p.path, sidx: idx}
	}
	e.unsupported("IndexAddr on %T", e.val(f, x.X))
	return nil
}

// elemPtr returns a pointer to element idx (relative to the slice start); no bounds check.
func (e *Exec) elemPtr(s *Slice, idx *Term) *Ptr {
	if s.b != nil {
		return &Ptr{b: s.b, idx: e.tb.Bin(OAdd, s.off, idx)}
	}
	if s.c == nil {
		e.unsupported("element of nil slice")
	}
	abs := e.tb.Bin(OAdd, s.off, idx)
	if abs.isConst() {
		return &Ptr{obj: s.c, path: appendPath(s.cpath, int(abs.k))}
	}
	if bvWidth(s.elem) < 0 {
		e.unsupported("symbolic index into slice of %s", s.elem)
	}
	return &Ptr{obj: s.c, path: s.cpath, sidx: abs}
}

func (e *Exec) index(f *frame, x *ssa.Index) Value {
	idx := e.idx64(e.val(f, x.Index), x.Index.Type())
	switch base := e.val(f, x.X).(type) {
	case ArrV:
		e.check(e.inRange(idx, e.tb.K(64, uint64(len(base)))), "panic", "index out of range", x.Pos())
		if idx.isConst() {
			return base[idx.k]
		}
		var r *Term
		for i := len(base) - 1; i >= 0; i-- {
			el, ok := base[i].(*Term)
			if !ok {
				e.unsupported("symbolic index into array value of non-scalars")
			}
			if r == nil {
				r = el
			} else {
				r = e.tb.Ite(e.tb.Cmp(OEq, idx, e.tb.K(64, uint64(i))), el, r)
			}
		}
		return r
	case *Str:
		e.check(e.inRange(idx, base.len), "panic", "string index out of range", x.Pos())
		return e.strByte(base, idx)
	}
	e.unsupported("Index on %T", e.val(f, x.X))
	return nil
}

func (e *Exec) strByte(s *Str, i *Term) *Term {
	if s.b == nil {
		return e.tb.K(8, 0)
	}
	return e.bread(s.b, len(s.b.log), e.tb.Bin(OAdd, s.off, i))
}

func (e *Exec) lookup(f *frame, x *ssa.Lookup) {
	switch base := e.val(f, x.X).(type) {
	case *Str:
		idx := e.idx64(e.val(f, x.Index), x.Index.Type())
		e.check(e.inRange(idx, base.len), "panic", "string index out of range", x.Pos())
		e.setv(f, x, e.strByte(base, idx))
	case *MapV:
		v, ok := e.mapLookup(base, e.val(f, x.Index), x.X.Type().Underlying().(*types.Map).Elem())
		if x.CommaOk {
			e.setv(f, x, Tuple{v, e.tb.Bool(ok)})
		} else {
			e.setv(f, x, v)
		}
	default:
		e.unsupported("Lookup on %T", base)
	}
}

func (e *Exec) unop(f *frame, x *ssa.UnOp) {
	a := e.val(f, x.X)
	switch x.Op {
	case token.MUL:
		e.setv(f, x, e.load(a, x.Pos()))
	case token.NOT:
		e.setv(f, x, e.tb.Not(a.(*Term)))
	case token.SUB:
		if fl, ok := a.(FloatV); ok {
			e.setv(f, x, -fl)
			return
		}
		e.setv(f, x, e.tb.un(ONeg, a.(*Term)))
	case token.XOR:
		e.setv(f, x, e.tb.un(ONotBV, a.(*Term)))
	case token.ARROW:
		e.effects++
		ch := a.(*ChanV)
		if ch == nil || !ch.closed {
			e.unsupported("blocking channel receive")
		}
		z := e.zero(x.X.Type().Underlying().(*types.Chan).Elem())
		if x.CommaOk {
			e.setv(f, x, Tuple{z, e.tb.False()})
		} else {
			e.setv(f, x, z)
		}
	default:
		e.unsupported("unop %v", x.Op)
	}
}

var cmpOps = map[token.Token]bool{token.EQL: true, token.NEQ: true, token.LSS: true, token.LEQ: true, token.GTR: true, token.GEQ: true}

func (e *Exec) binop(op token.Token, a, b Value, t types.Type, pos token.Pos) Value {
	tb := e.tb
	switch x := a.(type) {
	case *Term:
		y := b.(*Term)
		signed := isSigned(t)
		if x.w == 0 {
			switch op {
			case token.EQL:
				return tb.Cmp(OEq, x, y)
			case token.NEQ:
				return tb.Not(tb.Cmp(OEq, x, y))
			case token.AND, token.LAND:
				return tb.And(x, y)
			case token.OR, token.LOR:
				return tb.Or(x, y)
			}
			e.unsupported("bool binop %v", op)
		}
		switch op {
		case token.SHL, token.SHR:
			// y may have a different width (always unsigned or checked non-negative)
			var sh *Term
			if y.w > x.w {
				// shift count >= width -> saturate
				big := tb.Not(tb.Cmp(OUlt, y, tb.K(y.w, uint64(x.w))))
				sh = tb.Ite(big, tb.K(x.w, uint64(x.w)), tb.Conv(y, x.w, false))
			} else {
				sh = tb.Conv(y, x.w, false)
			}
			if op == token.SHL {
				return tb.Bin(OShl, x, sh)
			}
			if signed {
				return tb.Bin(OAshr, x, sh)
			}
			return tb.Bin(OLshr, x, sh)
		case token.ADD:
			return tb.Bin(OAdd, x, y)
		case token.SUB:
			return tb.Bin(OSub, x, y)
		case token.MUL:
			return tb.Bin(OMul, x, y)
		case token.AND:
			return tb.Bin(OAnd, x, y)
		case token.OR:
			return tb.Bin(OOr, x, y)
		case token.XOR:
			return tb.Bin(OXor, x, y)
		case token.AND_NOT:
			return tb.Bin(OAnd, x, tb.un(ONotBV, y))
		case token.QUO, token.REM:
			e.check(tb.Not(tb.Cmp(OEq, y, tb.K(y.w, 0))), "panic", "integer divide by zero", pos)
			switch {
			case op == token.QUO && signed:
				return tb.Bin(OSdiv, x, y)
			case op == token.QUO:
				return tb.Bin(OUdiv, x, y)
			case signed:
				return tb.Bin(OSrem, x, y)
			default:
				return tb.Bin(OUrem, x, y)
			}
		case token.EQL:
			return tb.Cmp(OEq, x, y)
		case token.NEQ:
			return tb.Not(tb.Cmp(OEq, x, y))
		case token.LSS:
			if signed {
				return tb.Cmp(OSlt, x, y)
			}
			return tb.Cmp(OUlt, x, y)
		case token.LEQ:
			if signed {
				return tb.Cmp(OSle, x, y)
			}
			return tb.Cmp(OUle, x, y)
		case token.GTR:
			if signed {
				return tb.Cmp(OSlt, y, x)
			}
			return tb.Cmp(OUlt, y, x)
		case token.GEQ:
			if signed {
				return tb.Cmp(OSle, y, x)
			}
			return tb.Cmp(OUle, y, x)
		}
		e.unsupported("int binop %v", op)
	case FloatV:
		y := b.(FloatV)
		switch op {
		case token.ADD:
			return x + y
		case token.SUB:
			return x - y
		case token.MUL:
			return x * y
		case token.QUO:
			return x / y
		case token.LSS:
			return tb.Bool(x < y)
		case token.GTR:
			return tb.Bool(x > y)
		case token.EQL:
			return tb.Bool(x == y)
		case token.NEQ:
			return tb.Bool(x != y)
		case token.LEQ:
			return tb.Bool(x <= y)
		case token.GEQ:
			return tb.Bool(x >= y)
		}
	case *Str:
		y := b.(*Str)
		switch op {
		case token.ADD:
			return e.strConcat(x, y)
		case token.EQL:
			return e.strEq(x, y)
		case token.NEQ:
			return tb.Not(e.strEq(x, y))
		case token.LSS, token.LEQ, token.GTR, token.GEQ:
			sa, oka := e.concStr(x)
			sb, okb := e.concStr(y)
			if oka && okb {
				switch op {
				case token.LSS:
					return tb.Bool(sa < sb)
				case token.LEQ:
					return tb.Bool(sa <= sb)
				case token.GTR:
					return tb.Bool(sa > sb)
				default:
					return tb.Bool(sa >= sb)
				}
			}
			e.unsupported("symbolic string ordering")
		}
	}
	if op == token.EQL || op == token.NEQ {
		r := e.valEq(a, b, t)
		if op == token.NEQ {
			return tb.Not(r)
		}
		return r
	}
	e.unsupported("binop %v on %T", op, a)
	return nil
}

// valEq: Go's == on non-numeric values.
func (e *Exec) valEq(a, b Value, t types.Type) *Term {
	tb := e.tb
	switch x := a.(type) {
	case *Term:
		return tb.Cmp(OEq, x, b.(*Term))
	case *Str:
		return e.strEq(x, b.(*Str))
	case *Ptr:
		y := b.(*Ptr)
		if x == nil || y == nil {
			return tb.Bool(x == nil && y == nil)
		}
		if x.b != nil || y.b != nil {
			if x.b != y.b {
				return tb.False()
			}
			return tb.Cmp(OEq, x.idx, y.idx)
		}
		if x.obj != y.obj || len(x.path) != len(y.path) {
			return tb.False()
		}
		for i := range x.path {
			if x.path[i] != y.path[i] {
				return tb.False()
			}
		}
		return tb.True()
	case *Slice:
		y := b.(*Slice)
		if y.isNil() {
			return tb.Bool(x.isNil())
		}
		if x.isNil() {
			return tb.Bool(y.isNil())
		}
		e.unsupported("slice comparison")
	case *MapV:
		y := b.(*MapV)
		if x == nil || y == nil || x.isNil || y.isNil {
			return tb.Bool((x == nil || x.isNil) && (y == nil || y.isNil))
		}
		return tb.Bool(x == y)
	case *ChanV:
		return tb.Bool(x == b.(*ChanV))
	case *Closure:
		y := b.(*Closure)
		if x == nil || y == nil {
			return tb.Bool(x == nil && y == nil)
		}
		e.unsupported("func comparison")
	case *Native:
		if y, ok := b.(*Closure); ok && y == nil {
			return tb.False()
		}
		e.unsupported("func comparison")
	case Iface:
		y, ok := b.(Iface)
		if !ok {
			e.unsupported("iface compared with %T", b)
		}
		if x.t == nil || y.t == nil {
			return tb.Bool(x.t == nil && y.t == nil)
		}
		if !types.Identical(x.t, y.t) {
			return tb.False()
		}
		return e.valEq(x.v, y.v, x.t)
	case StructV:
		y := b.(StructV)
		r := tb.True()
		st := t.Underlying().(*types.Struct)
		for i := range x {
			r = tb.And(r, e.valEq(x[i], y[i], st.Field(i).Type()))
		}
		return r
	case ArrV:
		y := b.(ArrV)
		r := tb.True()
		var et types.Type
		if at, ok := t.Underlying().(*types.Array); ok {
			et = at.Elem()
		}
		for i := range x {
			r = tb.And(r, e.valEq(x[i], y[i], et))
		}
		return r
	case nil:
		return tb.Bool(b == nil)
	}
	e.unsupported("equality on %T", a)
	return nil
}

func (e *Exec) typeAssert(f *frame, x *ssa.TypeAssert) {
	v := e.val(f, x.X).(Iface)
	ok := false
	var res Value
	if v.t != nil {
		if types.IsInterface(x.AssertedType) {
			it := x.AssertedType.Underlying().(*types.Interface)
			ok = types.Implements(v.t, it)
			res = v
		} else {
			ok = types.Identical(v.t, x.AssertedType)
			res = v.v
		}
	}
	if x.CommaOk {
		if !ok {
			res = e.zero(x.AssertedType)
		}
		e.setv(f, x, Tuple{res, e.tb.Bool(ok)})
		return
	}
	if !ok {
		e.check(e.tb.False(), "panic", "interface conversion failed: "+x.AssertedType.String(), x.Pos())
		panic(pathEnd{"type-assert"})
	}
	e.setv(f, x, res)
}

func (e *Exec) convert(v Value, from, to types.Type, pos token.Pos) Value {
	tb := e.tb
	fu, tu := from.Underlying(), to.Underlying()
	switch x := v.(type) {
	case *Term:
		if isStringType(to) {
			// string(rune/byte)
			if x.isConst() {
				return e.mkStr(string(rune(x.sval())))
			}
			e.unsupported("string(symbolic rune)")
		}
		w := bvWidth(to)
		if w < 0 {
			if b, ok := tu.(*types.Basic); ok && b.Info()&types.IsFloat != 0 && x.isConst() {
				if isSigned(from) {
					return FloatV(float64(x.sval()))
				}
				return FloatV(float64(x.k))
			}
			if b, ok := tu.(*types.Basic); ok && b.Kind() == types.UnsafePointer {
				e.unsupported("int to unsafe.Pointer")
			}
			e.unsupported("convert int to %s", to)
		}
		return tb.Conv(x, w, isSigned(from))
	case FloatV:
		if w := bvWidth(to); w > 0 {
			return tb.K(w, uint64(int64(x)))
		}
		return x
	case *Str:
		if _, ok := tu.(*types.Slice); ok {
			// []byte(s): copy
			if !isByteType(tu.(*types.Slice).Elem()) {
				e.unsupported("[]rune(string)")
			}
			if e.spec > 0 {
				panic(specAbort{"alloc"})
			}
			o := e.newBObj(x.len, -1, "bytes(string)")
			if x.b != nil {
				o.max = x.b.max
				e.bcopy(o, tb.K(64, 0), x.b, x.off, x.len)
			}
			return &Slice{b: o, off: tb.K(64, 0), len: x.len, cap: x.len, elem: tu.(*types.Slice).Elem()}
		}
		return x
	case *Slice:
		if isStringType(to) {
			if e.spec > 0 {
				panic(specAbort{"alloc"})
			}
			if x.isNil() || (x.len.isConst() && x.len.k == 0) {
				return e.mkStr("")
			}
			o := e.newBObj(x.len, -1, "string(bytes)")
			o.ro = false
			e.sliceCopyTo(o, tb.K(64, 0), x, x.len)
			o.ro = true
			if x.b != nil {
				o.max = x.b.max
			}
			return &Str{b: o, off: tb.K(64, 0), len: x.len}
		}
		return x
	case *Ptr:
		return x // pointer <-> unsafe.Pointer
	}
	_ = fu
	e.unsupported("convert %T from %s to %s", v, from, to)
	return nil
}

// ---------- slices ----------

func (e *Exec) makeSlice(t types.Type, n, c *Term, pos token.Pos) Value {
	tb := e.tb
	et := t.Underlying().(*types.Slice).Elem()
	n, c = tb.Conv(n, 64, true), tb.Conv(c, 64, true)
	e.check(tb.And(tb.Cmp(OSle, tb.K(64, 0), n), tb.Cmp(OSle, n, c)), "panic", "makeslice: len out of range", pos)
	if isByteType(et) {
		max := -1
		if c.isConst() {
			max = int(c.k)
		}
		return &Slice{b: e.newBObj(c, max, "make"), off: tb.K(64, 0), len: n, cap: c, elem: et}
	}
	if !c.isConst() {
		e.unsupported("make of non-byte slice with symbolic capacity")
	}
	arr := make(ArrV, c.k)
	if c.k > 0 {
		z := e.zero(et)
		for i := range arr {
			arr[i] = z
		}
	}
	return &Slice{c: e.newObj(arr, nil, "make"), off: tb.K(64, 0), len: n, cap: c, elem: et}
}

func (e *Exec) sliceOp(f *frame, x *ssa.Slice) Value {
	tb := e.tb
	get := func(v ssa.Value, def *Term) *Term {
		if v == nil {
			return def
		}
		return e.idx64(e.val(f, v), v.Type())
	}
	zero := tb.K(64, 0)
	switch base := e.val(f, x.X).(type) {
	case *Slice:
		lo := get(x.Low, zero)
		hi := get(x.High, base.len)
		mx := get(x.Max, base.cap)
		ok := tb.And(tb.And(tb.Cmp(OSle, zero, lo), tb.Cmp(OSle, lo, hi)), tb.And(tb.Cmp(OSle, hi, mx), tb.Cmp(OSle, mx, base.cap)))
		e.check(ok, "panic", "slice bounds out of range", x.Pos())
		return &Slice{b: base.b, c: base.c, cpath: base.cpath, off: tb.Bin(OAdd, base.off, lo), len: tb.Bin(OSub, hi, lo), cap: tb.Bin(OSub, mx, lo), elem: base.elem}
	case *Str:
		lo := get(x.Low, zero)
		hi := get(x.High, base.len)
		ok := tb.And(tb.And(tb.Cmp(OSle, zero, lo), tb.Cmp(OSle, lo, hi)), tb.Cmp(OSle, hi, base.len))
		e.check(ok, "panic", "string slice bounds out of range", x.Pos())
		return &Str{b: base.b, off: tb.Bin(OAdd, base.off, lo), len: tb.Bin(OSub, hi, lo)}
	case *Ptr:
		p := e.ptr(base, x.Pos())
		at := x.X.Type().Underlying().(*types.Pointer).Elem().Underlying().(*types.Array)
		n := tb.K(64, uint64(at.Len()))
		lo := get(x.Low, zero)
		hi := get(x.High, n)
		mx := get(x.Max, n)
		ok := tb.And(tb.And(tb.Cmp(OSle, zero, lo), tb.Cmp(OSle, lo, hi)), tb.And(tb.Cmp(OSle, hi, mx), tb.Cmp(OSle, mx, n)))
		e.check(ok, "panic", "slice bounds out of range", x.Pos())
		if ba, isB := p.obj.v.(*BArr); isB && len(p.path) == 0 {
			return &Slice{b: ba.b, off: lo, len: tb.Bin(OSub, hi, lo), cap: tb.Bin(OSub, mx, lo), elem: at.Elem()}
		}
		return &Slice{c: p.obj, cpath: p.path, off: lo, len: tb.Bin(OSub, hi, lo), cap: tb.Bin(OSub, mx, lo), elem: at.Elem()}
	}
	e.unsupported("Slice of %T", e.val(f, x.X))
	return nil
}

// sliceRead reads element i (relative) of a byte slice.
func (e *Exec) sliceRead(s *Slice, i *Term) *Term {
	return e.load(e.elemPtr(s, i), token.NoPos).(*Term)
}

// cells returns the element values of a cell-backed slice prefix [0,n).
func (e *Exec) cellArr(s *Slice) ArrV {
	return getPath(s.c.v, s.cpath).(ArrV)
}

// sliceCopyTo copies n bytes of byte-slice src into byte object dst at d.
func (e *Exec) sliceCopyTo(dst *BObj, d *Term, src *Slice, n *Term) {
	if src.b != nil {
		ro := dst.ro
		dst.ro = false
		e.bcopy(dst, d, src.b, src.off, n)
		dst.ro = ro
		return
	}
	if src.isNil() {
		return
	}
	if !n.isConst() || !src.off.isConst() {
		e.unsupported("symbolic-length copy from array-backed slice")
	}
	arr := e.cellArr(src)
	for j := uint64(0); j < n.k; j++ {
		dst.log = append(dst.log, logEntry{store: true, idx: e.tb.Bin(OAdd, d, e.tb.K(64, j)), val: arr[src.off.k+j].(*Term)})
	}
}

// copySlices implements copy(dst, src) for slices; returns n.
func (e *Exec) copySlices(d *Slice, s Value, pos token.Pos) *Term {
	tb := e.tb
	var slen *Term
	var src *Slice
	switch x := s.(type) {
	case *Slice:
		src, slen = x, x.len
	case *Str:
		src = &Slice{b: x.b, off: x.off, len: x.len, cap: x.len}
		slen = x.len
	}
	n := tb.Ite(tb.Cmp(OSlt, d.len, slen), d.len, slen)
	if d.isNil() || src.isNil() || (n.isConst() && n.k == 0) {
		if d.isNil() || src.isNil() {
			return tb.K(64, 0)
		}
	}
	if d.b != nil {
		e.sliceCopyTo(d.b, d.off, src, n)
		return n
	}
	// destination is cell-backed
	if !n.isConst() || !d.off.isConst() {
		e.unsupported("symbolic-length copy into array-backed slice (n=%v)", !n.isConst())
	}
	vals := make([]Value, n.k)
	for j := range vals {
		vals[j] = e.load(e.elemPtr(src, tb.K(64, uint64(j))), pos)
	}
	for j, v := range vals {
		e.store(e.elemPtr(d, tb.K(64, uint64(j))), v, pos)
	}
	return n
}

var sizeClasses = []uint64{0, 8, 16, 24, 32, 48, 64, 80, 96, 112, 128, 144, 160, 176, 192, 208, 224, 240, 256, 288, 320, 352, 384, 416, 448, 480, 512, 576, 640, 704, 768, 896, 1024, 1152, 1280, 1408, 1536, 1792, 2048, 2304, 2688, 3072, 3200, 3456, 4096, 4864, 5376, 6144, 6528, 6784, 6912, 8192, 9472, 9728, 10240, 10880, 12288, 13568, 14336, 16384, 18432, 19072, 20480, 21760, 24576, 27264, 28672, 32768}

func roundupsize(n uint64) uint64 {
	if n <= 32768 {
		i := sort.Search(len(sizeClasses), func(i int) bool { return sizeClasses[i] >= n })
		return sizeClasses[i]
	}
	return (n + 8191) &^ 8191
}

// growCapTerm: growCap for a concrete old capacity and a symbolic new length (byte elements).
func (e *Exec) growCapTerm(oldCap uint64, need *Term) *Term {
	tb := e.tb
	// candidate capacities before rounding
	var nc *Term
	double := tb.K(64, 2*oldCap)
	if oldCap < 256 {
		nc = tb.Ite(tb.Cmp(OUlt, double, need), need, double)
	} else {
		// newcap += (newcap + 768) >> 2 until >= need; need <= 2*oldCap here, so a few steps suffice
		c := oldCap
		var steps []uint64
		for c < 2*oldCap {
			c += (c + 768) >> 2
			steps = append(steps, c)
		}
		var chain *Term = tb.K(64, steps[len(steps)-1])
		for i := len(steps) - 2; i >= 0; i-- {
			chain = tb.Ite(tb.Cmp(OUle, need, tb.K(64, steps[i])), tb.K(64, steps[i]), chain)
		}
		nc = tb.Ite(tb.Cmp(OUlt, double, need), need, chain)
	}
	// roundupsize: size classes up to 32 KiB, whole pages above
	var r *Term = tb.Bin(OAnd, tb.Bin(OAdd, nc, tb.K(64, 8191)), tb.K(64, ^uint64(8191)))
	for i := len(sizeClasses) - 1; i >= 1; i-- {
		r = tb.Ite(tb.Cmp(OUle, nc, tb.K(64, sizeClasses[i])), tb.K(64, sizeClasses[i]), r)
	}
	return r
}

// growCap mimics runtime.growslice's capacity rule (go1.23) for elemSize bytes.
func growCap(oldCap, newLen, elemSize uint64) uint64 {
	newcap := oldCap
	doublecap := newcap + newcap
	if newLen > doublecap {
		newcap = newLen
	} else {
		const threshold = 256
		if oldCap < threshold {
			newcap = doublecap
		} else {
			for newcap < newLen {
				newcap += (newcap + 3*threshold) >> 2
			}
		}
	}
	if elemSize == 0 {
		return newcap
	}
	mem := roundupsize(newcap * elemSize)
	return mem / elemSize
}

func (e *Exec) appendOp(dv, sv Value, t types.Type, pos token.Pos) Value {
	tb := e.tb
	d := dv.(*Slice)
	var s *Slice
	switch x := sv.(type) {
	case *Slice:
		s = x
	case *Str:
		s = &Slice{b: x.b, off: x.off, len: x.len, cap: x.len, elem: d.elem}
	}
	et := t.Underlying().(*types.Slice).Elem()
	if s.isNil() || (s.len.isConst() && s.len.k == 0) {
		return d
	}
	need := tb.Bin(OAdd, d.len, s.len)
	if isByteType(et) {
		fits := tb.Cmp(OSle, need, d.cap)
		if d.isNil() || (d.cap.isConst() && d.cap.k == 0) {
			// nil, or an empty literal such as []byte{} (bytes.Clone): every non-empty append grows
			fits = tb.False()
		}
		if e.branch(fits) {
			if d.b != nil {
				e.sliceCopyTo(d.b, tb.Bin(OAdd, d.off, d.len), s, s.len)
			} else {
				tmp := &Slice{c: d.c, cpath: d.cpath, off: tb.Bin(OAdd, d.off, d.len), len: s.len, cap: s.len, elem: et}
				e.copySlices(tmp, s, pos)
			}
			return &Slice{b: d.b, c: d.c, cpath: d.cpath, off: d.off, len: need, cap: d.cap, elem: et}
		}
		e.allocEvent(e.eng.pos(pos) + " append beyond capacity")
		var ncap *Term
		max := -1
		if d.cap.isConst() && need.isConst() {
			ncap = tb.K(64, growCap(d.cap.k, need.k, 1))
			max = int(ncap.k)
		} else if e.eng.esc != nil && (d.isNil() || d.cap.isConst()) {
			// allocation checks (C20): the runtime's growth rule as a term of the symbolic new length,
			// so that capacity-boundary counterexamples are the ones the real runtime produces
			oc := uint64(0)
			if !d.isNil() {
				oc = d.cap.k
			}
			ncap = e.growCapTerm(oc, need)
		} else {
			ncap = tb.Fresh("cap", 64)
			e.assume(tb.And(tb.Cmp(OSle, need, ncap), tb.Cmp(OSle, ncap, tb.Bin(OAdd, tb.Bin(OAdd, need, need), tb.K(64, 64)))))
			e.inputs = append(e.inputs, inputRec{kind: "cap", terms: []*Term{ncap}})
		}
		o := e.newBObj(ncap, max, "append")
		if !d.isNil() && !(d.len.isConst() && d.len.k == 0) {
			e.sliceCopyTo(o, tb.K(64, 0), d, d.len)
		}
		e.sliceCopyTo(o, d.len, s, s.len)
		return &Slice{b: o, off: tb.K(64, 0), len: need, cap: ncap, elem: et}
	}
	// cell-backed
	if !d.len.isConst() || !s.len.isConst() || !d.cap.isConst() || !d.off.isConst() || !s.off.isConst() {
		e.unsupported("append on non-byte slice with symbolic header")
	}
	nl := d.len.k + s.len.k
	res := d
	if d.c == nil || nl > d.cap.k {
		e.allocEvent(e.eng.pos(pos) + " append beyond capacity")
		nc := growCap(d.cap.k, nl, e.eng.sizeof(et))
		arr := make(ArrV, nc)
		z := e.zero(et)
		for i := range arr {
			arr[i] = z
		}
		if d.c != nil {
			old := e.cellArr(d)
			for i := uint64(0); i < d.len.k; i++ {
				arr[i] = old[d.off.k+i]
			}
		}
		res = &Slice{c: e.newObj(arr, nil, "append"), off: tb.K(64, 0), len: d.len, cap: tb.K(64, nc), elem: et}
	}
	src := e.cellArr(s)
	arr := e.cellArr(res)
	na := make(ArrV, len(arr))
	copy(na, arr)
	for i := uint64(0); i < s.len.k; i++ {
		na[res.off.k+d.len.k+i] = src[s.off.k+i]
	}
	res.c.v = setPath(res.c.v, res.cpath, na)
	return &Slice{c: res.c, cpath: res.cpath, off: res.off, len: tb.K(64, nl), cap: res.cap, elem: et}
}

// ---------- strings ----------

func (e *Exec) strMax(s *Str) int {
	if s.len.isConst() {
		return int(s.len.k)
	}
	if s.len.rhi < 1<<20 {
		return int(s.len.rhi)
	}
	if s.b != nil && s.b.max >= 0 {
		return s.b.max
	}
	e.unsupported("string without a concrete length bound")
	return 0
}

func (e *Exec) strEq(x, y *Str) *Term {
	tb := e.tb
	r := tb.Cmp(OEq, x.len, y.len)
	if r.isFalse() {
		return r
	}
	n := e.strMax(x)
	if m := e.strMax(y); m < n {
		n = m
	}
	for i := 0; i < n; i++ {
		ki := tb.K(64, uint64(i))
		same := tb.Cmp(OEq, e.strByte(x, ki), e.strByte(y, ki))
		r = tb.And(r, tb.Or(tb.Not(tb.Cmp(OSlt, ki, x.len)), same))
	}
	return r
}

func (e *Exec) strConcat(x, y *Str) Value {
	tb := e.tb
	if x.len.isConst() && x.len.k == 0 {
		return y
	}
	if y.len.isConst() && y.len.k == 0 {
		return x
	}
	if e.spec > 0 {
		panic(specAbort{"alloc"})
	}
	n := tb.Bin(OAdd, x.len, y.len)
	o := e.newBObj(n, -1, "concat")
	if x.b != nil && y.b != nil {
		mx, my := e.strMax(x), e.strMax(y)
		o.max = mx + my
	}
	if x.b != nil {
		e.bcopy(o, tb.K(64, 0), x.b, x.off, x.len)
	}
	if y.b != nil {
		e.bcopy(o, x.len, y.b, y.off, y.len)
	}
	o.ro = true
	return &Str{b: o, off: tb.K(64, 0), len: n}
}

// ---------- maps ----------

func (e *Exec) mapMatch(s *mapSlot, k Value, kt types.Type) *Term {
	if s.used.isFalse() {
		return s.used
	}
	return e.tb.And(s.used, e.valEq(s.key, k, kt))
}

func (e *Exec) mapLookup(m *MapV, k Value, vt types.Type) (Value, bool) {
	if m == nil || m.isNil {
		return e.zero(vt), false
	}
	for _, s := range m.slots {
		if e.branch(e.mapMatch(s, k, m.kt)) {
			return s.val, true
		}
	}
	return e.zero(vt), false
}

func (e *Exec) mapUpdate(m *MapV, k, v Value, pos token.Pos) {
	if m == nil || m.isNil {
		e.check(e.tb.False(), "panic", "assignment to entry in nil map", pos)
		panic(pathEnd{"nil-map"})
	}
	for _, s := range m.slots {
		if e.branch(e.mapMatch(s, k, m.kt)) {
			s.val = v
			return
		}
	}
	for _, s := range m.slots {
		if s.used.isFalse() {
			s.used, s.key, s.val = e.tb.True(), k, v
			return
		}
	}
	m.slots = append(m.slots, &mapSlot{used: e.tb.True(), key: k, val: v})
}

func (e *Exec) mapDelete(m *MapV, k Value) {
	if m == nil || m.isNil {
		return
	}
	for _, s := range m.slots {
		if e.branch(e.mapMatch(s, k, m.kt)) {
			s.used = e.tb.False()
			return
		}
	}
}

func (e *Exec) mapLen(m *MapV) *Term {
	n := e.tb.K(64, 0)
	if m == nil {
		return n
	}
	for _, s := range m.slots {
		n = e.tb.Bin(OAdd, n, e.tb.Ite(s.used, e.tb.K(64, 1), e.tb.K(64, 0)))
	}
	return n
}

type rangeIter struct {
	x   Value
	pos int
}

func (e *Exec) next(f *frame, x *ssa.Next) Value {
	it := e.val(f, x.Iter).(*rangeIter)
	tb := e.tb
	if x.IsString {
		s := it.x.(*Str)
		i := tb.K(64, uint64(it.pos))
		if !e.branch(tb.Cmp(OSlt, i, s.len)) {
			return Tuple{tb.False(), tb.K(64, 0), tb.K(32, 0)}
		}
		c := e.strByte(s, i)
		// ASCII only: multi-byte sequences are outside the modelled domain
		if !e.branch(tb.Cmp(OUlt, c, tb.K(8, 0x80))) {
			e.unsupported("range over non-ASCII string")
		}
		it.pos++
		return Tuple{tb.True(), i, tb.Conv(c, 32, false)}
	}
	m, _ := it.x.(*MapV)
	tup := x.Type().(*types.Tuple)
	zk, zv := e.zeroOrNil(tup.At(1).Type()), e.zeroOrNil(tup.At(2).Type())
	if m == nil {
		return Tuple{tb.False(), zk, zv}
	}
	for it.pos < len(m.slots) {
		s := m.slots[it.pos]
		it.pos++
		if e.branch(s.used) {
			return Tuple{tb.True(), s.key, s.val}
		}
	}
	return Tuple{tb.False(), zk, zv}
}

func (e *Exec) zeroOrNil(t types.Type) Value {
	if b, ok := t.(*types.Basic); ok && b.Kind() == types.Invalid {
		return nil
	}
	return e.zero(t)
}

func (e *Exec) selectOp(f *frame, x *ssa.Select) Value {
	tb := e.tb
	if x.Blocking {
		if !e.joinModel {
			e.unsupported("blocking select")
		}
		return e.blockingSelect(f, x)
	}
	res := Tuple{tb.K(64, ^uint64(0)), tb.False()}
	for _, st := range x.States {
		if st.Dir == types.RecvOnly {
			res = append(res, e.zero(st.Chan.Type().Underlying().(*types.Chan).Elem()))
		}
	}
	for i, st := range x.States {
		if st.Dir != types.RecvOnly {
			e.unsupported("select send")
		}
		ch := e.val(f, st.Chan).(*ChanV)
		if ch != nil && ch.closed {
			res[0] = tb.K(64, uint64(i))
			return res
		}
	}
	return res
}

// blockingSelect (join model): goroutines only run lazily, at the WaitGroup.Wait that joins them, so a
// blocking select is evaluated at that moment: every closed channel and every ticker channel is ready, the
// choice among the ready cases is nondeterministic (forked); nothing ready = the goroutine blocks for ever.
func (e *Exec) blockingSelect(f *frame, x *ssa.Select) Value {
	tb := e.tb
	var ready []int
	for i, st := range x.States {
		if st.Dir != types.RecvOnly {
			e.unsupported("select send")
		}
		ch, _ := e.val(f, st.Chan).(*ChanV)
		if ch != nil && (ch.closed || ch.ticker) {
			ready = append(ready, i)
		}
	}
	if len(ready) == 0 {
		if len(e.dec) >= len(e.prefix) {
			e.fail("deadlock", "select blocks for ever: no channel is closed and no ticker is running", x.Pos(), tb.True())
		}
		panic(pathEnd{"deadlock"})
	}
	pick := ready[e.choose(len(ready))]
	ch := e.val(f, x.States[pick].Chan).(*ChanV)
	if !ch.closed {
		// a tick: the number of ticks delivered in one activation is bounded like a loop unwinding
		f.visits[x.Block()]++
		if f.visits[x.Block()] > e.unwind {
			e.cuts++
			if e.unwindCut {
				panic(pathEnd{"unwind-cut"})
			}
			e.notes = append(e.notes, fmt.Sprintf("UNWIND-INSUFFICIENT at %s (limit %d)", e.eng.pos(x.Pos()), e.unwind))
			panic(pathEnd{"unwind-insufficient"})
		}
	}
	res := Tuple{tb.K(64, uint64(pick)), tb.Bool(!ch.closed)}
	for _, st := range x.States {
		if st.Dir == types.RecvOnly {
			res = append(res, e.zero(st.Chan.Type().Underlying().(*types.Chan).Elem()))
		}
	}
	return res
}

// wgWait (join model): Wait with a positive counter lets the pending goroutines run, one after the other to
// completion; a counter that stays positive means Wait never returns.
func (e *Exec) wgWait(key string, pos token.Pos) {
	for e.wgCount[key] > 0 && len(e.goroutines) > 0 {
		g := e.goroutines[0]
		e.goroutines = e.goroutines[1:]
		e.callValue(g.fn, g.args, pos)
		e.goLive--
	}
	if e.wgCount[key] > 0 {
		if len(e.dec) >= len(e.prefix) {
			e.fail("deadlock", "WaitGroup.Wait never returns: the counter stays positive after every goroutine has run", pos, e.tb.True())
		}
		panic(pathEnd{"deadlock"})
	}
}

// ---------- calls from instructions ----------

func (e *Exec) prepCall(f *frame, c *ssa.CallCommon, pos token.Pos) (Value, []Value) {
	var args []Value
	if c.IsInvoke() {
		recv := e.val(f, c.Value).(Iface)
		if recv.t == nil {
			e.check(e.tb.False(), "panic", "method call on nil interface", pos)
			panic(pathEnd{"nil-iface"})
		}
		fn := e.eng.prog.LookupMethod(recv.t, c.Method.Pkg(), c.Method.Name())
		if fn == nil {
			e.unsupported("no method %s on %s", c.Method.Name(), recv.t)
		}
		args = append(args, recv.v)
		for _, a := range c.Args {
			args = append(args, e.val(f, a))
		}
		return &Closure{fn: fn}, args
	}
	for _, a := range c.Args {
		args = append(args, e.val(f, a))
	}
	return e.val(f, c.Value), args
}

func (e *Exec) applyCall(fv Value, args []Value, c *ssa.CallCommon, pos token.Pos) Value {
	if b, ok := fv.(*ssa.Builtin); ok {
		return e.builtin(b, args, c, pos)
	}
	return e.callValue(fv, args, pos)
}

func (e *Exec) doCall(f *frame, c *ssa.CallCommon, pos token.Pos, instr *ssa.Call) Value {
	fv, args := e.prepCall(f, c, pos)
	return e.applyCall(fv, args, c, pos)
}

func (e *Exec) builtin(b *ssa.Builtin, args []Value, c *ssa.CallCommon, pos token.Pos) Value {
	tb := e.tb
	switch b.Name() {
	case "len":
		switch x := args[0].(type) {
		case *Str:
			return x.len
		case *Slice:
			return x.len
		case *MapV:
			return e.mapLen(x)
		case ArrV:
			return tb.K(64, uint64(len(x)))
		case *Ptr:
			at := c.Args[0].Type().Underlying().(*types.Pointer).Elem().Underlying().(*types.Array)
			return tb.K(64, uint64(at.Len()))
		}
	case "cap":
		switch x := args[0].(type) {
		case *Slice:
			return x.cap
		case ArrV:
			return tb.K(64, uint64(len(x)))
		}
	case "copy":
		e.effects++
		if e.spec > 0 {
			panic(specAbort{"copy"})
		}
		return e.copySlices(args[0].(*Slice), args[1], pos)
	case "append":
		e.effects++
		if e.spec > 0 {
			panic(specAbort{"append"})
		}
		return e.appendOp(args[0], args[1], c.Args[0].Type(), pos)
	case "delete":
		e.effects++
		if e.spec > 0 {
			panic(specAbort{"delete"})
		}
		e.mapDelete(args[0].(*MapV), args[1])
		return nil
	case "close":
		e.effects++
		ch := args[0].(*ChanV)
		if ch == nil || ch.closed {
			e.check(tb.False(), "panic", "close of nil or closed channel", pos)
			panic(pathEnd{"close"})
		}
		ch.closed = true
		return nil
	case "min", "max":
		r := args[0].(*Term)
		signed := isSigned(c.Args[0].Type())
		for _, a := range args[1:] {
			y := a.(*Term)
			var lt *Term
			if signed {
				lt = tb.Cmp(OSlt, y, r)
			} else {
				lt = tb.Cmp(OUlt, y, r)
			}
			if b.Name() == "max" {
				lt = tb.Not(tb.Or(lt, tb.Cmp(OEq, y, r)))
			}
			r = tb.Ite(lt, y, r)
		}
		return r
	case "print", "println":
		return nil
	case "ssa:wrapnilchk":
		p, _ := args[0].(*Ptr)
		if p == nil {
			e.check(tb.False(), "panic", "nil receiver in wrapper", pos)
			panic(pathEnd{"nil"})
		}
		return args[0]
	}
	e.unsupported("builtin %s on %T", b.Name(), args[0])
	return nil
}

// guardCheck implements the lock-discipline assertion (C14/C15).
func (e *Exec) guardCheck(p *Ptr, x *ssa.FieldAddr) {
	if len(e.guards) == 0 {
		return
	}
	st, ok := x.X.Type().Underlying().(*types.Pointer).Elem().(*types.Named)
	if !ok {
		return
	}
	sn := st.Obj().Name()
	fld := st.Underlying().(*types.Struct).Field(x.Field).Name()
	if x.Pos().IsValid() {
		if fn := e.eng.fset.Position(x.Pos()).Filename; strings.HasPrefix(fn[strings.LastIndex(fn, "/")+1:], "zz_vx_") {
			return // the harness's own accesses (set-up, observation) are not the code under test
		}
	}
	for _, g := range e.guards {
		if g.typ != sn || g.field != fld {
			continue
		}
		if g.mux == "@atomic" {
			// the field may only be touched through sync/atomic: every use of its address is an argument of a sync/atomic function
			ok := true
			if refs := x.Referrers(); refs != nil {
				for _, r := range *refs {
					c, isCall := r.(*ssa.Call)
					callee := (*ssa.Function)(nil)
					if isCall {
						callee = c.Call.StaticCallee()
					}
					if callee == nil || callee.Pkg == nil || callee.Pkg.Pkg.Path() != "sync/atomic" {
						ok = false
					}
				}
			}
			e.lockLog = append(e.lockLog, fmt.Sprintf("access %s.%s atomic=%v at %s", sn, fld, ok, e.eng.pos(x.Pos())))
			if !ok {
				e.fail("lock-discipline", fmt.Sprintf("%s.%s accessed without sync/atomic", sn, fld), x.Pos(), e.tb.True())
			}
			continue
		}
		// find mutex field index
		s := st.Underlying().(*types.Struct)
		for i := 0; i < s.NumFields(); i++ {
			if s.Field(i).Name() == g.mux {
				key := mutexKey(&Ptr{obj: p.obj, path: appendPath(p.path, i)})
				ms := e.mutex[key]
				held := ms != nil && (ms.held > 0 || ms.readers > 0)
				e.lockLog = append(e.lockLog, fmt.Sprintf("access %s.%s held=%v at %s", sn, fld, held, e.eng.pos(x.Pos())))
				if !held {
					e.fail("lock-discipline", fmt.Sprintf("%s.%s accessed without %s", sn, fld, g.mux), x.Pos(), e.tb.True())
				}
			}
		}
	}
}

func mutexKey(p *Ptr) string {
	return fmt.Sprintf("%d/%v", p.obj.id, p.path)
}

func init() {
	_ = os.Getenv
}
