#!/bin/bash
# neutralone.sh <N> <changeIndex> <prop...> : one behaviour-preserving patch, given properties (see neutralround.sh)
V=$(cd $(dirname $0) && pwd)
N=$1; i=change$2; shift; shift
d=/tmp/wt4-$N/out/$i
S=/tmp/neutral1-$N-$i-$$
rm -rf $S; git -C /repo worktree prune; git -C /repo worktree add -q --detach $S HEAD
if ! git -C $S apply $d/patch.diff; then echo "$N $i APPLY-FAILED"; git -C /repo worktree remove --force $S; exit; fi
for p in "$@"; do
  cp $V/evidence/$p.json /tmp/ev1-$N-$i-$p.json
  out=$(VERIF_REPO=$S timeout 3000 python3 $V/vcheck.py $p quick 2>&1 | grep -v WARNING)
  cp /tmp/ev1-$N-$i-$p.json $V/evidence/$p.json
  echo "$N $i $p: $(echo "$out" | grep -E '^(OK|VIOLATION|INCONCLUSIVE|KNOWN|NOTE)' | head -3 | cut -c1-300)"
  echo "$out" | grep -A1 "^VIOLATION" | grep harness | head -2 | cut -c1-500
done
git -C /repo worktree remove --force $S; rm -rf $S
