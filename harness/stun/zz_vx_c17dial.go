package stun

import (
	"errors"
	"net"

	"github.com/pion/transport/v3"
)

// C17 (dial clause) — DialURI dials exactly the transport a URI denotes and never
// dials a secure scheme in plaintext.  The network is a recording
// transport.Net; crypto/tls.Client, pion/dtls.Client, net.ResolveUDPAddr and
// time.NewTicker are recording stubs of the engine (symbolic run); natively the
// real functions run (the DTLS branch, which would start a handshake, is not
// replayed natively).

type vxDialRec struct {
	network, address string
	udp              bool
}

type vxNet struct {
	transport.Net // nil: every method not overridden would panic
	dials         []vxDialRec
	failDial      bool
}

type vxNetConn struct {
	net.Conn
	vxc *vxConn
}

func (c *vxNetConn) Read(p []byte) (int, error)  { return c.vxc.Read(p) }
func (c *vxNetConn) Write(p []byte) (int, error) { return c.vxc.Write(p) }
func (c *vxNetConn) Close() error                { return c.vxc.Close() }

type vxUDPConn struct {
	transport.UDPConn
	vxc *vxConn
}

func (c *vxUDPConn) Read(p []byte) (int, error)  { return c.vxc.Read(p) }
func (c *vxUDPConn) Write(p []byte) (int, error) { return c.vxc.Write(p) }
func (c *vxUDPConn) Close() error                { return c.vxc.Close() }
func (c *vxUDPConn) RemoteAddr() net.Addr        { return &net.UDPAddr{} }

func (n *vxNet) Dial(network, address string) (net.Conn, error) {
	n.dials = append(n.dials, vxDialRec{network: network, address: address})
	if n.failDial {
		return nil, errVxCallback
	}
	return &vxNetConn{vxc: newVxConn()}, nil
}

func (n *vxNet) DialUDP(network string, laddr, raddr *net.UDPAddr) (transport.UDPConn, error) {
	n.dials = append(n.dials, vxDialRec{network: network, udp: true})
	if n.failDial {
		return nil, errVxCallback
	}
	return &vxUDPConn{vxc: newVxConn()}, nil
}

func vh_C17_dial() {
	scheme := SchemeType(vxLen(7)) // all values 0..7 of the int-typed enum (known: 1..4)
	proto := ProtoType(vxLen(4))   // all values 0..4 (known: 1..2)
	hn := 1 + vxChoose(2)
	host := vxString(hn, hn)
	for i := 0; i < hn; i++ {
		vxAssume(vxIsHostChar(vxStrAt(host, i)))
	}
	port := []int{0, 3478, 5349, 65535}[vxChoose(4)]
	u := &URI{Scheme: scheme, Host: host, Port: port, Proto: proto}
	nw := &vxNet{failDial: vxChoose(2) == 1}
	cfg := &DialConfig{Net: nw}
	if vxChoose(2) == 1 {
		// a configuration that was used before for another server (or carries a name of its own): the server
		// name of this dial is the URI's host all the same
		cfg.TLSConfig.ServerName = "stale.example"
		cfg.DTLSConfig.ServerName = "stale.example"
		vxReach("config-with-server-name")
	}
	dtlsBranch := scheme == SchemeTypeTURNS && proto == ProtoTypeUDP
	if dtlsBranch && vxNativeRun() {
		return // would start a DTLS handshake on the fake connection
	}
	c, err := DialURI(u, cfg)
	if c != nil && vxNativeRun() {
		defer c.Close() //nolint:errcheck
	}
	secure := scheme == SchemeTypeSTUNS || scheme == SchemeTypeTURNS
	wantAddr := net.JoinHostPort(host, []string{"0", "3478", "5349", "65535"}[vxConcretize(vxIndexOf(port), 0, 3)])
	switch {
	case scheme == SchemeTypeSTUN, scheme == SchemeTypeTURN:
		vxReach("plain")
		wantNet := "udp"
		if scheme == SchemeTypeTURN && proto == ProtoTypeTCP {
			wantNet = "tcp"
		}
		vxAssert(len(nw.dials) == 1 && !nw.dials[0].udp, "stun/turn dial once, in plaintext")
		vxAssert(nw.dials[0].network == wantNet, "stun dials UDP; turn dials its transport (UDP unless TCP)")
		vxAssert(nw.dials[0].address == wantAddr, "the address dialled is host:port of the URI")
		vxAssert(vxTLSServerName(c) == "" && vxDTLSServerName() == "", "no TLS/DTLS wrapper for stun/turn")
		vxAssert((err == nil) == !nw.failDial, "DialURI succeeds iff the dial succeeds")
	case dtlsBranch:
		vxReach("dtls")
		vxAssert(len(nw.dials) == 1 && nw.dials[0].udp && nw.dials[0].network == "udp", "turns over UDP dials UDP once")
		if !nw.failDial {
			vxAssert(vxDTLSServerName() == host, "DTLS is used with the host as server name")
		}
	case secure && proto == ProtoTypeTCP:
		vxReach("tls")
		vxAssert(len(nw.dials) == 1 && !nw.dials[0].udp && nw.dials[0].network == "tcp", "stuns/turns over TCP dial TCP once")
		vxAssert(nw.dials[0].address == wantAddr, "the address dialled is host:port of the URI")
		if !nw.failDial {
			vxAssert(err == nil && c != nil, "DialURI succeeds")
			vxAssert(vxTLSServerName(c) == host, "TLS is used with the host as server name")
		}
	default:
		vxReach("unsupported")
		vxAssert(errors.Is(err, ErrUnsupportedURI) && c == nil, "every other scheme/transport combination is ErrUnsupportedURI")
		vxAssert(len(nw.dials) == 0, "nothing is dialled for an unsupported combination")
	}
	if secure && err == nil {
		vxAssert(vxTLSServerName(c) != "" || vxDTLSServerName() != "", "a secure scheme is never dialled without TLS/DTLS")
	}
}

func vxIndexOf(port int) int {
	switch port {
	case 0:
		return 0
	case 3478:
		return 1
	case 5349:
		return 2
	}
	return 3
}

// every URI ParseURI can produce is dialled by the branch of its own transport
func vh_C17_parse_then_dial() {
	prefix, scheme := vxSchemePrefix()
	qw, _, _, _ := vxQueryPiece()
	u, err := ParseURI(prefix + "h" + qw)
	if err != nil {
		return
	}
	nw := &vxNet{}
	if u.Scheme == SchemeTypeTURNS && u.Proto == ProtoTypeUDP && vxNativeRun() {
		return
	}
	c, derr := DialURI(u, &DialConfig{Net: nw})
	if c != nil && vxNativeRun() {
		defer c.Close() //nolint:errcheck
	}
	vxReach("dialled")
	vxAssert(derr == nil, "a URI produced by ParseURI can be dialled")
	vxAssert(len(nw.dials) == 1, "exactly one dial")
	wantUDP := u.Proto == ProtoTypeUDP
	vxAssert((nw.dials[0].network == "udp") == wantUDP, "the network dialled is the URI's transport")
	secure := scheme == SchemeTypeSTUNS || scheme == SchemeTypeTURNS
	vxAssert(secure == (vxTLSServerName(c) != "" || vxDTLSServerName() != ""), "TLS/DTLS exactly for the secure schemes")
}
