package stun

import (
	"errors"
	"time"
)

// C10 under PRE-EMPTION at the client's control points.
//
// The property names the places where other goroutines can be paused or
// reordered without source hooks: the Connection, the Clock, the Collector and
// a delegating ClientAgent are all called between the client's critical
// sections.  Here each of those calls is a CONTROL POINT: while the calling
// frame is suspended there, another goroutine's whole event (a Start by another
// user goroutine, the reader delivering a response, the collector's tick, a
// Close) may run to completion, chosen symbolically, within a budget of nested
// events.  Every gap between two critical sections of Start, handleAgentCallback
// (completion and retransmission path) and Close contains such a call, and the
// lock-set guards show that Client.closed / Client.t are only touched inside the
// critical sections, so within the budget this covers every interleaving in
// which the pre-empting goroutine finishes its event before the pre-empted one
// resumes (LIFO pre-emption).  Not covered: interleavings that need two frames
// to alternate more than once.
//
// Soundness of the event choice (no false alarms):
//   * nothing is fired while any client/agent mutex is held (a real goroutine
//     would block there, not run);
//   * one collector goroutine, one reader goroutine: no tick inside a tick, no
//     delivery inside a delivery;
//   * Close cannot pass collector.Close() while the collector's callback is
//     suspended (tickerCollector.Close waits for it): no Close inside a tick;
//   * the collector does not tick once its Close has been entered (except the
//     last tick inside collector.Close, as in vh_C10_history);
//   * causality: a response with a transaction's ID reaches the reader only
//     after the write of a request with that ID has been issued (the write may
//     still be in progress, and may yet fail although the datagram went out).

const (
	vxGoUser = iota
	vxGoCollector
	vxGoReader
)

type vxCPAgent struct {
	inner *Agent
	h     *vxHist
}

func (a *vxCPAgent) Process(m *Message) error {
	a.h.cp()
	err := a.inner.Process(m)
	a.h.cp()
	return err
}

func (a *vxCPAgent) Close() error {
	a.h.cp()
	err := a.inner.Close()
	a.h.cp()
	return err
}

func (a *vxCPAgent) Start(id [TransactionIDSize]byte, deadline time.Time) error {
	a.h.cp()
	err := a.inner.Start(id, deadline)
	a.h.cp()
	return err
}

func (a *vxCPAgent) Stop(id [TransactionIDSize]byte) error {
	a.h.cp()
	err := a.inner.Stop(id)
	a.h.cp()
	return err
}

func (a *vxCPAgent) Collect(t time.Time) error {
	a.h.cp()
	err := a.inner.Collect(t)
	a.h.cp()
	return err
}

func (a *vxCPAgent) SetHandler(h Handler) error { return a.inner.SetHandler(h) }

type vxHist struct {
	env         *vxClientEnv
	inner       *Agent
	txs         [2]vxTx
	starting    [2]bool   // a Start of this transaction is in progress (its frame may be suspended)
	w0          [2]int    // number of writes issued on the connection when that Start began
	overtook    [2]bool   // a response, a tick or a Close of another goroutine ran while that Start was suspended
	reqLen      [2]int    // concrete request length for this transaction (0: symbolic, up to 40 bytes)
	req         [2][]byte // private copy of the request as it was when Start was called
	dup         *vxCalls
	closed      bool // Close has been called (it may still be in progress)
	closedTwice bool
	budget      int // nested events left
	frames      []int
	active      bool
}

func (h *vxHist) has(g int) bool {
	for _, f := range h.frames {
		if f == g {
			return true
		}
	}
	return false
}

// cp: a control point.  Fires at most one nested event of another goroutine.
func (h *vxHist) cp() {
	if !h.active || h.budget == 0 {
		return
	}
	if vxRWMutexHeld(&h.env.c.mux) || vxMutexHeld(&h.inner.mux) {
		return
	}
	k := vxChoose(5)
	if k == 0 {
		return
	}
	h.budget--
	vxReach("nested-event")
	if k == 2 || k == 3 || k == 4 {
		for j := range h.starting {
			if h.starting[j] {
				h.overtook[j] = true
			}
		}
	}
	h.event(k, vxChoose(2), true)
}

// event kinds: 1 Start, 2 response, 3 tick, 4 Close, 5 fail-next-write (top level only)
func (h *vxHist) event(kind, ti int, nested bool) {
	env := h.env
	t := &h.txs[ti]
	switch kind {
	case 1: // a user goroutine calls Start
		vxAssume(!h.starting[ti])
		var msg *Message
		if h.reqLen[ti] > 0 {
			msg = &Message{TransactionID: t.id, Raw: vxBytes(h.reqLen[ti], h.reqLen[ti]), Length: uint32(h.reqLen[ti] - messageHeaderSize)}
		} else {
			msg = vxRequest(t.id, 40)
		}
		h.req[ti] = append([]byte{}, msg.Raw...)
		if t.started == 0 {
			h.starting[ti] = true
			h.overtook[ti] = false
			h.w0[ti] = env.conn.entered
			h.frames = append(h.frames, vxGoUser)
			rec := t.rec
			err := env.c.Start(msg, func(e Event) {
				rec.handle(e)
				h.cp() // the user's handler is a call-out too: other goroutines may run while it does
			})
			h.frames = h.frames[:len(h.frames)-1]
			h.starting[ti] = false
			if err == nil {
				t.started = 1
				vxReach("started")
			} else {
				t.started = 2
				if len(t.rec.events) > 0 && h.overtook[ti] {
					// the transaction was completed by a concurrent terminator (timeout / Close) while
					// Start's own write was still pending, and that write then failed
					vxReach("start-error-after-completion")
					t.started = 3
				} else {
					vxReach("start-failed")
				}
			}
		} else {
			vxAssume(false) // duplicate and retried Starts are the subject of vh_C10_history
		}
	case 2: // the reader delivers a response with this ID (also late / duplicate / unsolicited)
		vxAssume(!h.has(vxGoReader))
		vxAssume(!h.starting[ti] || env.conn.entered > h.w0[ti])
		vxAssume(t.started != 0 || h.starting[ti]) // unsolicited responses for never-started IDs: vh_C10_history
		m := &Message{TransactionID: t.id}
		if (t.started == 1 || h.starting[ti]) && len(t.rec.events) == 0 {
			t.resp = m
		}
		h.frames = append(h.frames, vxGoReader)
		_ = env.deliver(m)
		h.frames = h.frames[:len(h.frames)-1]
		vxReach("response")
	case 3: // the clock advances and the collector fires
		vxAssume(!h.has(vxGoCollector))
		vxAssume(env.coll.closed == 0)
		nt := vxTime()
		vxAssume(!nt.Before(env.clock.now))
		h.frames = append(h.frames, vxGoCollector)
		env.tick(nt)
		h.frames = h.frames[:len(h.frames)-1]
		vxReach("tick")
	case 4: // a user goroutine calls Close
		vxAssume(!h.has(vxGoCollector))
		h.frames = append(h.frames, vxGoUser)
		if h.closed {
			// C15: a Close that overlaps or follows the first one (the flag is set in the first critical section)
			vxAssume(nested && !h.closedTwice)
			h.closedTwice = true
			vxAssert(errors.Is(env.c.Close(), ErrClientClosed), "a second Close, overlapping the first or after it, returns ErrClientClosed (pre-emption at control points)")
			vxReach("second-close")
		} else {
			h.closed = true
			vxAssert(env.c.Close() == nil, "the first Close succeeds (pre-emption at control points)")
			vxReach("close")
		}
		h.frames = h.frames[:len(h.frames)-1]
	default:
		vxAssume(!nested)
		env.conn.failNext = true
	}
}

func (h *vxHist) check(final bool) {
	for j := range h.txs {
		t := &h.txs[j]
		vxAssert(len(t.rec.events) <= 1, "no handler is ever invoked twice (pre-emption at control points)")
		if t.started == 2 || t.started == 0 {
			vxAssert(len(t.rec.events) == 0, "no handler call without a successful Start (pre-emption at control points)")
		}
		if final && t.started == 1 {
			vxAssert(len(t.rec.events) == 1, "a started transaction's handler has been invoked exactly once by the time Close returns (pre-emption at control points)")
			if len(t.rec.events) == 1 {
				vxAssert(vxTerminal(t, t.rec.events[0]), "the invocation carries the matching response, a timeout, the write error or a closed error (pre-emption at control points)")
			}
		}
	}
	vxAssert(len(h.dup.events) == 0, "the handler of a rejected duplicate Start is never invoked")
	if final {
		// C15 under pre-emption: ownership and finality
		env := h.env
		vxAssert(env.conn.closed == 1, "the connection has been closed exactly once (pre-emption at control points)")
		vxAssert(env.coll.closed == 1, "the collector has been closed exactly once (pre-emption at control points)")
		w := len(env.conn.writes)
		vxAssert(errors.Is(env.c.Start(vxRequest(vxID(), 40), h.dup.handle), ErrClientClosed), "Start after Close returns ErrClientClosed (pre-emption at control points)")
		vxAssert(errors.Is(env.c.Indicate(vxRequest(vxID(), 40)), ErrClientClosed), "Indicate after Close returns ErrClientClosed (pre-emption at control points)")
		vxAssert(len(env.conn.writes) == w, "nothing is written after Close (pre-emption at control points)")
		vxAssert(len(h.dup.events) == 0, "no handler runs for a Start after Close")
		// pooled objects: one that was handed back twice would be handed out to two transactions at once
		a, b := acquireClientTransaction(), acquireClientTransaction()
		vxAssert(a != b, "two acquisitions never return the same pooled clientTransaction (none was put back twice)")
	}
}

func vxNewHist(budget int) *vxHist {
	h := &vxHist{dup: &vxCalls{}, budget: budget}
	h.inner = NewAgent(nil)
	h.env = vxNewClient(WithAgent(&vxCPAgent{inner: h.inner, h: h}))
	h.env.c.maxAttempts = int32(vxChoose(2))
	h.env.c.SetRTO(time.Duration(1 + vxLen(1000)))
	h.env.conn.cp = h.cp
	h.env.clock.cp = h.cp
	h.env.coll.cp = h.cp
	h.txs[0] = vxTx{id: vxID(), rec: &vxCalls{}}
	h.txs[1] = vxTx{id: vxID(), rec: &vxCalls{}}
	vxAssume(h.txs[0].id != h.txs[1].id)
	vxGuard("Client", "closed", "mux")
	vxGuard("Client", "t", "mux")
	vxGuard("Client", "rto", "@atomic")
	vxGuard("Client", "maxAttempts", "@atomic")
	h.active = true
	return h
}

// vh_C10_preempt: a history of top-level events, each of which may be pre-empted at its
// control points by nested events of other goroutines.
func vh_C10_preempt() { vxPreempt(2, 1) }

// vh_C10_preempt_deep (thorough tier): one top-level event pre-empted by up to two nested events (e.g. a
// response and a Close inside one Start), then the final Close.
func vh_C10_preempt_deep() { vxPreempt(1, 2) }

// depth 3 with one nested event, and depth 2 with two, exhausted a budget of 200 000 paths: not registered
func vxPreempt(depth, budget int) {
	h := vxNewHist(budget)
	for step := 0; step < depth; step++ {
		h.event(1+vxChoose(5), vxChoose(2), false)
		if len(h.frames) == 0 {
			h.check(false)
		}
	}
	if !h.closed {
		h.event(4, 0, false)
	}
	h.active = false
	h.check(true)
	for j := range h.txs {
		// known finding kfC10StartErrorAfterCompletion: see KNOWN_FINDINGS.json
		if h.txs[j].started == 3 && !vxKnownOpen("kfC10StartErrorAfterCompletion") {
			vxAssert(false, "Start returned an error although the handler had already been invoked")
		}
	}
}

// vh_C10_preempt_kf_starterr: inside the region of the known finding — Start's own write is still
// pending when a concurrent terminator completes the transaction, then the write fails.
func vh_C10_preempt_kf_starterr() {
	h := vxNewHist(0)
	h.env.c.maxAttempts = 0
	t := &h.txs[0]
	fired := false
	h.env.conn.cp = func() {
		if fired {
			return
		}
		fired = true
		// Close overtakes the Start whose request is about to be written; the connection then refuses the write
		h.event(4, 0, true)
	}
	h.env.conn.failNext = true
	err := h.env.c.Start(vxRequest(t.id, 40), t.rec.handle)
	vxAssert(err != nil, "the write fails")
	vxAssert(len(t.rec.events) == 0, "If Start returns an error the handler is never invoked (Close overtakes a Start whose write then fails)")
}

// vh_C10_preempt_retransmit: the retransmission path under pre-emption.  Prefix: Start(tx0) with one
// retransmission allowed; optionally the next write is made to fail; the collector fires after the first
// deadline, so handleAgentCallback takes the retransmission path (delete from the table, re-register with
// client and agent, write, on a write error un-register and complete).  At each of its call-outs up to two
// events of other goroutines may run (the reader delivering tx0's response, a user goroutine starting tx1).
// Afterwards tx1 is started if it is not yet, its response is delivered, and the client is closed.
// Obligations: every handler exactly once with an event of its own transaction ("however internal objects
// are recycled": a pooled clientTransaction must not be used after it was put back).
func vh_C10_preempt_retransmit() {
	h := vxNewHist(0)
	h.env.c.maxAttempts = 1
	h.reqLen = [2]int{24, 28} // the length of a write tells which transaction it belongs to
	h.event(1, 0, false)      // Start tx0: no pre-emption yet
	vxAssume(h.txs[0].started == 1)
	if vxChoose(2) == 1 {
		h.env.conn.failNext = true
		vxReach("retransmission-write-fails")
	}
	rto := time.Duration(h.env.c.rto)
	nt := h.env.clock.now.Add(rto + time.Duration(1+vxLen(1000)))
	h.budget = 2
	h.frames = append(h.frames, vxGoCollector)
	h.env.tick(nt) // first deadline passed: retransmission
	h.frames = h.frames[:len(h.frames)-1]
	h.budget = 0
	h.check(false)
	if h.txs[1].started == 0 {
		h.event(1, 1, false)
	}
	if h.txs[1].started == 1 && len(h.txs[1].rec.events) == 0 {
		h.event(2, 1, false)
		vxAssert(len(h.txs[1].rec.events) == 1, "the second transaction's response reaches its handler")
	}
	h.event(4, 0, false)
	h.active = false
	h.check(true)
	for j := range h.txs {
		for _, e := range h.txs[j].rec.events {
			vxAssert(e.TransactionID == h.txs[j].id, "a handler only sees events of its own transaction (recycled objects included)")
		}
	}
	// C11 under pre-emption: every write carries, byte for byte, the request of one of the transactions as
	// it was when Start was called (first transmissions and retransmissions alike)
	vxAssert(len(h.env.conn.writes) <= 3, "at most one retransmission of tx0 and one transmission of tx1")
	for _, w := range h.env.conn.writes {
		vxAssert(len(w) == 24 || len(w) == 28, "every write is a whole request")
		if len(w) == 24 {
			vxSameBytes(w, h.req[0], "a write of tx0 carries the request as it was at Start (pre-emption at control points)")
		}
		if len(w) == 28 && h.req[1] != nil {
			vxSameBytes(w, h.req[1], "a write of tx1 carries the request as it was at Start (pre-emption at control points)")
		}
	}
}
