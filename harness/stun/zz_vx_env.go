package stun

import (
	"errors"
	"io"
	"time"
)

// Environment of the client harnesses (C10, C11, C12, C15): a recording
// connection, a manual clock and a manual collector.  Everything that in
// production happens on other goroutines (the reader, the collector's ticker)
// is an EVENT that the harness executes between the client's own calls.

var errVxWrite = errors.New("vx write failure")
var errVxClose = errors.New("vx close failure")

type vxConn struct {
	writes   [][]byte // private copies of everything written
	failNext bool
	closed   int
	closeErr error
	reads    int
	unblock  chan struct{}
	eofs     int      // Read returns io.EOF this many times before anything else
	script   [][]byte // datagrams handed to the reader, one per Read
	after    func()   // called by the Read that finds the script exhausted (e.g. observe, then Close)
	cp       func()   // control point: other goroutines may run here (vh_C10_preempt)
	entered  int      // number of Write calls issued (returned or not)
	client   *Client
}

func newVxConn() *vxConn { return &vxConn{unblock: make(chan struct{})} }

func (c *vxConn) Write(p []byte) (int, error) {
	if c.client != nil {
		// a Write may block until the connection is closed; Close needs the client's mutex before it closes
		// the connection: writing while holding it (even shared) deadlocks Close against a blocked writer
		vxAssert(!vxRWMutexHeld(&c.client.mux), "the connection is written without holding the client's mutex (a blocked writer would deadlock Close)")
	}
	c.entered++
	fail := c.failNext // the failure belongs to the write that was issued first, not to one that overtakes it
	c.failNext = false
	if c.cp != nil {
		c.cp() // the write has been issued and has not returned yet (it may still succeed or fail)
	}
	if fail {
		return 0, errVxWrite
	}
	cp := make([]byte, len(p))
	copy(cp, p)
	c.writes = append(c.writes, cp)
	if c.cp != nil {
		c.cp() // written, the caller has not resumed yet
	}
	return len(p), nil
}

// Read blocks until the connection is closed (natively the client's reader
// goroutine sits here; responses are delivered by the harness as events).
func (c *vxConn) Read(p []byte) (int, error) {
	c.reads++
	if c.eofs > 0 {
		c.eofs--
		return 0, io.EOF
	}
	if len(c.script) > 0 {
		d := c.script[0]
		c.script = c.script[1:]
		return copy(p, d), nil
	}
	if c.after != nil {
		f := c.after
		c.after = nil
		f()
		if c.closed == 0 {
			return 0, io.EOF // precondition of C15: under WithNoConnClose the connection's Read eventually returns
		}
	}
	<-c.unblock
	return 0, io.EOF
}

func (c *vxConn) Close() error {
	if c.cp != nil {
		c.cp()
	}
	c.closed++
	if c.closed == 1 {
		close(c.unblock)
	}
	return c.closeErr
}

type vxClock struct {
	now time.Time
	cp  func()
}

func (c *vxClock) Now() time.Time {
	if c.cp != nil {
		c.cp()
	}
	return c.now
}

type vxCollector struct {
	f       func(time.Time)
	started int
	closed  int
	onClose func() // runs inside Close (another caller overlapping at this point)
	cp      func()
	client  *Client
}

func (c *vxCollector) Start(rate time.Duration, f func(now time.Time)) error {
	c.started++
	c.f = f
	return nil
}

func (c *vxCollector) Close() error { // precondition of C15: the collector's Close succeeds
	// the real tickerCollector.Close waits for a callback in flight, and the callback (Agent.Collect ->
	// handleAgentCallback) takes the client's mutex: stopping the collector while holding it deadlocks
	// whenever a tick is being processed
	if c.client != nil {
		vxAssert(!vxRWMutexHeld(&c.client.mux), "Close stops the collector without holding the client's mutex (a tick in flight needs it: deadlock)")
	}
	if c.cp != nil {
		c.cp() // the ticker goroutine has not been stopped yet
	}
	c.closed++
	if c.onClose != nil {
		f := c.onClose
		c.onClose = nil
		f()
	}
	return nil
}

type vxCalls struct {
	events []Event
}

func (h *vxCalls) handle(e Event) { h.events = append(h.events, e) }

type vxClientEnv struct {
	c     *Client
	conn  *vxConn
	clock *vxClock
	coll  *vxCollector
}

// vxNewClient builds a real Client through NewClient with the manual environment.
func vxNewClient(opts ...ClientOption) *vxClientEnv {
	env := &vxClientEnv{conn: newVxConn(), clock: &vxClock{now: vxTime()}, coll: &vxCollector{}}
	all := append([]ClientOption{WithClock(env.clock), WithCollector(env.coll)}, opts...)
	c, err := NewClient(env.conn, all...)
	vxAssert(err == nil && c != nil, "NewClient succeeds")
	env.c = c
	env.coll.client = c
	env.conn.client = c
	return env
}

// tick: the collector fires at virtual time t.
func (e *vxClientEnv) tick(t time.Time) {
	e.clock.now = t
	e.coll.f(t)
}

// deliver: the reader's loop body for one well-formed datagram (Message.ReadFrom + Agent.Process).
func (e *vxClientEnv) deliver(m *Message) error { return e.c.a.Process(m) }

// vxRequest: a request message of symbolic size with the given transaction ID.
func vxRequest(id transactionID, maxLen int) *Message {
	n := vxLen(maxLen - messageHeaderSize)
	raw := vxBytes(messageHeaderSize+n, messageHeaderSize+n)
	return &Message{TransactionID: id, Raw: raw, Length: uint32(n)}
}

func vxSameBytes(a, b []byte, what string) {
	vxAssert(len(a) == len(b), what+" (length)")
	w := vxWitness(len(a))
	vxAssert(vxAt(a, w) == vxAt(b, w), what+" (bytes)")
}
