package stun

// C03 — built messages are well-formed and the struct always matches its wire bytes.
//
// Inv(m): len(Raw) = 20+Length, Length = 0 mod 4, Raw[2:4] = Length, cookie,
// Raw[0:2] = Type.Value(), Raw[8:20] = TransactionID, and the independent
// reference parse of Raw yields exactly m.Attributes (types, lengths, value
// bytes).  Base cases establish Inv from any prior state; every building
// operation re-establishes it from an arbitrary Inv state (one inductive step,
// so histories of any length are covered for states within the attribute bound).

func vxCheckInv(m *Message, maxAttrs int, what string) {
	raw := m.Raw
	vxAssert(len(raw) == messageHeaderSize+int(m.Length), what+": header length field counts exactly the bytes after the header")
	vxAssert(m.Length%4 == 0, what+": body length is a multiple of 4")
	vxAssert(m.Length <= 0xFFFF, what+": body length fits 16 bits")
	vxAssert(refBE16(raw, 2) == int(m.Length), what+": Raw[2:4] is Length")
	vxAssert(refBE32(raw, 4) == 0x2112A442, what+": magic cookie present")
	vxAssert(uint16(refBE16(raw, 0)) == refTypeValue(uint16(m.Type.Method), uint8(m.Type.Class)), what+": Raw[0:2] is the type")
	for i := 0; i < TransactionIDSize; i++ {
		vxAssert(vxAt(raw, 8+i) == m.TransactionID[i], what+": Raw[8:20] is the transaction ID")
	}
	r := refParse(raw, maxAttrs)
	vxAssert(!r.over, what+": no more attributes on the wire than in the struct")
	vxAssert(r.ok, what+": raw bytes are a well-formed RFC 5389 message")
	vxAssert(r.n == len(m.Attributes), what+": wire and struct hold the same number of attributes")
	for i := 0; i < r.n && i < len(m.Attributes); i++ {
		a := m.Attributes[i]
		vxAssert(uint16(a.Type) == r.attrs[i].typ || (uint16(a.Type) == 0x8020 && r.attrs[i].typ == 0x0020), what+": attribute type on the wire is the struct's")
		vxAssert(int(a.Length) == r.attrs[i].len, what+": attribute length on the wire is the struct's")
		vxAssert(len(a.Value) == r.attrs[i].len, what+": value length equals the declared length")
		w := vxWitness(len(a.Value))
		vxAssert(vxImplies(w < len(a.Value), vxAt(a.Value, w) == vxAt(raw, r.attrs[i].off+w)), what+": value bytes on the wire are the struct's")
	}
}

// vxZeroPadding: the padding of the last attribute (value length n ending at the end of raw) is zero.
func vxZeroPadding(raw []byte, n int, what string) {
	pad := (4 - n%4) % 4
	p := vxWitness(pad)
	vxAssert(vxImplies(p < pad, vxAt(raw, len(raw)-pad+p) == 0), what+": padding bytes are zero")
}

func vxImplies(a, b bool) bool { return !a || b }

func vxValidType() MessageType {
	me, cl := vxU16(), vxU8()
	vxAssume(me <= 0xFFF)
	vxAssume(cl <= 3)
	return MessageType{Method: Method(me), Class: MessageClass(cl)}
}

// ---- base cases ----

func vh_C03_base_build() {
	old, _ := vxOldAndFresh()
	t := vxValidType()
	id := vxID()
	n := vxLen(65535 - 4 - 3)
	at, v := AttrType(vxU16()), vxBytes(n, n)
	var err error
	k := vxChoose(2)
	if k == 0 {
		err = old.Build(t, NewTransactionIDSetter(id))
	} else {
		err = old.Build(t, NewTransactionIDSetter(id), RawAttribute{Type: at, Value: v})
	}
	vxAssert(err == nil, "Build succeeds")
	vxReach("built")
	vxAssert(old.Type == t && old.TransactionID == id, "Build applied type and transaction ID")
	vxCheckInv(old, k, "after Build")
	if k == 1 {
		vxZeroPadding(old.Raw, n, "after Build")
	}
}

func vh_C03_base_new() {
	m := New()
	m.Type = vxValidType()
	m.TransactionID = vxID()
	m.WriteHeader()
	vxReach("built")
	vxCheckInv(m, 0, "after New+WriteHeader")
	var z Message
	z.Type = vxValidType()
	z.TransactionID = vxID()
	z.Encode()
	vxCheckInv(&z, 0, "after Encode of a zero Message")
}

// ---- inductive steps from an arbitrary Inv state ----

func vh_C03_step_add() {
	k := vxK(1, 1)
	m, ok := vxBuiltState(k)
	if !ok {
		return
	}
	n := vxLen(65535)
	vxAssume(int(m.Length)+4+(n+3)&^3 <= 65535) // precondition: the result fits the 16-bit length field
	t, v := AttrType(vxU16()), vxBytes(n, n)
	snap := vxSnapshot(m)
	m.Add(t, v)
	vxReach("added")
	if n%4 != 0 {
		vxReach("padded")
	}
	vxCheckInv(m, k+1, "after Add")
	// exactly one TLV appended; earlier bytes (except the length field) untouched
	vxAssert(len(m.Raw) == len(snap.raw)+4+(n+3)&^3, "Add appends exactly one padded TLV")
	w := vxWitness(len(snap.raw))
	vxAssert(vxImplies(w < len(snap.raw) && w != 2 && w != 3, vxAt(m.Raw, w) == vxAt(snap.raw, w)), "Add leaves earlier bytes unchanged")
	vxAssert(len(m.Attributes) == snap.nattr+1, "Add appends one attribute to the struct")
	last := m.Attributes[len(m.Attributes)-1]
	vxAssert(last.Type == t && int(last.Length) == n && len(last.Value) == n, "the new attribute has the given type and length")
	wv := vxWitness(n)
	vxAssert(vxImplies(wv < n, vxAt(m.Raw, len(snap.raw)+4+wv) == vxAt(v, wv)), "the new attribute carries the given value")
	vxZeroPadding(m.Raw, n, "after Add")
}

// Add on a message that was decoded from a buffer with bytes after the declared length (a state Decode
// produces and tolerates): the appended TLV ends the message, whatever lay behind it before.
func vh_C03_step_add_trailing() {
	vxUnwind(1, true)
	raw := vxRawBuf()
	m := &Message{Raw: raw}
	if m.Decode() != nil {
		return
	}
	vxUnwind(vxLoopBound, false)
	vxAssume(raw[0]>>6 == 0)
	vxAssume(int(m.Length)%4 == 0)
	vxAssume(int(m.Length) <= 60000)
	trailing := len(raw) - messageHeaderSize - int(m.Length)
	if trailing > 0 {
		vxReach("trailing-bytes")
	}
	n := vxLen(40)
	if trailing > 4+(n+3)&^3 {
		vxReach("more-trailing-than-appended")
	}
	t, v := AttrType(vxU16()), vxBytes(n, n)
	first := messageHeaderSize + int(m.Length)
	m.Add(t, v)
	vxCheckInv(m, 2, "after Add on a message decoded with trailing bytes")
	vxAssert(len(m.Raw) == first+4+(n+3)&^3, "Add ends the message after the appended TLV (trailing bytes of the decoded buffer are dropped)")
	last := m.Attributes[len(m.Attributes)-1]
	vxAssert(last.Type == t && int(last.Length) == n && len(last.Value) == n, "the new attribute has the given type and length (after trailing bytes)")
	wv := vxWitness(n)
	vxAssert(vxImplies(wv < n, vxAt(m.Raw, first+4+wv) == vxAt(v, wv)), "the new attribute carries the given value (after trailing bytes)")
	vxZeroPadding(m.Raw, n, "after Add on a message decoded with trailing bytes")
}

func vh_C03_step_header() {
	k := vxK(1, 2)
	m, ok := vxBuiltState(k)
	if !ok {
		return
	}
	snap := vxSnapshot(m)
	switch vxChoose(8) {
	case 0:
		m.SetType(vxValidType())
	case 1:
		m.Type = vxValidType()
		m.TransactionID = vxID()
		m.WriteHeader()
	case 2:
		m.WriteLength()
	case 3:
		m.Type = vxValidType()
		m.WriteType()
	case 4:
		m.TransactionID = vxID()
		m.WriteTransactionID()
	case 5:
		vxAssert(NewTransactionIDSetter(vxID()).AddTo(m) == nil, "transaction ID setter succeeds")
	case 6:
		src := &Message{TransactionID: vxID()}
		vxAssert(src.AddTo(m) == nil, "Message.AddTo (copy transaction ID) succeeds")
	default:
		vxAssert(vxValidType().AddTo(m) == nil, "MessageType.AddTo succeeds")
	}
	vxReach("stepped")
	vxCheckInv(m, k, "after a header operation")
	vxAssert(len(m.Raw) == len(snap.raw), "header operations do not change the size")
	w := vxWitness(len(snap.raw))
	vxAssert(vxImplies(w >= messageHeaderSize && w < len(snap.raw), vxAt(m.Raw, w) == vxAt(snap.raw, w)), "header operations leave the body unchanged")
}

func vh_C03_step_typed() {
	k := vxK(1, 1)
	m, ok := vxBuiltState(k)
	if !ok {
		return
	}
	vxAssume(m.Length <= 60000)
	var err error
	n := 0
	switch vxChoose(4) {
	case 0:
		n = vxLen(763)
		err = Software(vxBytes(n, n)).AddTo(m)
	case 1:
		ip, _, _ := vxAddr()
		err = XORMappedAddress{IP: ip, Port: int(vxU16())}.AddTo(m)
		n = 4 // multiple of 4
	case 2:
		n = vxLen(763)
		err = ErrorCodeAttribute{Code: CodeStaleNonce, Reason: vxBytes(n, n)}.AddTo(m)
	default:
		err = UnknownAttributes{AttrType(vxU16()), AttrType(vxU16()), AttrType(vxU16())}.AddTo(m)
		n = 6
	}
	vxAssert(err == nil, "typed setter accepts a valid value")
	vxReach("stepped")
	vxCheckInv(m, k+1, "after a typed setter")
	vxZeroPadding(m.Raw, n, "after a typed setter")
}

// Encode / WriteAttributes from a decoded message (decode-then-encode).
func vh_C03_step_encode() {
	k := vxK(1, 2)
	m, ok := vxBuiltState(k)
	if !ok {
		return
	}
	snap := vxSnapshot(m)
	m.Encode()
	vxReach("encoded")
	vxCheckInv(m, k, "after Encode")
	vxAssert(len(m.Raw) == len(snap.raw), "Encode reproduces the size of the canonical bytes")
	// every value is followed by ZERO padding after Encode, whatever padding the decoded input carried
	for i := range m.Attributes {
		n := len(m.Attributes[i].Value)
		pad := (4 - n%4) % 4
		end := messageHeaderSize
		for j := 0; j <= i; j++ {
			end += 4 + (len(m.Attributes[j].Value)+3)&^3
		}
		pz := vxWitness(pad)
		vxAssert(vxImplies(pz < pad, vxAt(m.Raw, end-pad+pz) == 0), "after Encode: padding bytes are zero")
	}
	vxAssert(len(m.Attributes) == snap.nattr, "Encode keeps the attribute list")
	// bytes are reproduced except for padding, which Encode writes as zero
	w := vxWitness(len(snap.raw))
	vxAssert(vxImplies(w < messageHeaderSize, vxAt(m.Raw, w) == vxAt(snap.raw, w)), "Encode reproduces the header bytes")
}

// a refused setter (integrity after FINGERPRINT) leaves the message coherent
func vh_C03_step_refused() {
	k := vxK(1, 2)
	m, ok := vxBuiltState(k)
	if !ok {
		return
	}
	if !m.Contains(AttrFingerprint) {
		return
	}
	vxReach("refused")
	vxAssert(MessageIntegrity(vxBytes(3, 3)).AddTo(m) != nil, "integrity after FINGERPRINT is refused")
	vxCheckInv(m, k, "after a refused setter")
}

// encode-then-decode is the identity on content, and Equal agrees (small values:
// Equal compares value bytes in a loop, bounded here to values of <= 5 bytes).
func vh_C03_equal() {
	m := new(Message)
	if vxChoose(2) == 1 {
		m.Raw = make([]byte, 0, 64)
		m.Attributes = make(Attributes, 0, 2)
	}
	t, id := vxValidType(), vxID()
	na := vxChoose(3)
	var ss [2]RawAttribute
	for i := 0; i < na; i++ {
		n := vxChoose(6)
		ss[i] = RawAttribute{Type: AttrType(vxU16()), Value: vxBytes(n, n)}
		vxAssume(ss[i].Type != 0x8020) // decoded as 0x0020 by design (C02)
	}
	var err error
	switch na {
	case 0:
		err = m.Build(t, NewTransactionIDSetter(id))
	case 1:
		err = m.Build(t, NewTransactionIDSetter(id), ss[0])
	default:
		err = m.Build(t, NewTransactionIDSetter(id), ss[0], ss[1])
	}
	vxAssert(err == nil, "Build succeeds")
	d := new(Message)
	d.Raw = make([]byte, len(m.Raw))
	copy(d.Raw, m.Raw)
	vxAssert(d.Decode() == nil, "built bytes decode")
	vxReach("decoded")
	vxAssert(d.Type == m.Type && d.TransactionID == m.TransactionID && d.Length == m.Length, "decoded header fields equal the struct's")
	vxAssert(len(d.Attributes) == len(m.Attributes), "decoded attribute count equals the struct's")
	vxAssert(m.Equal(d), "Equal(struct, decode(raw))")
	vxAssert(d.Equal(m), "Equal(decode(raw), struct)")
}

func vh_C03_selftest() {
	m, ok := vxBuiltState(1)
	if !ok {
		return
	}
	m.Length += 4 // break the invariant deliberately
	m.WriteLength()
	vxCheckInv(m, 1, "selftest: deliberately false")
}
