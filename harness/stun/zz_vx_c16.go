package stun

// C16 — ParseURI terminates safely on every string.
// C17 — URIs get RFC 7064/7065 defaults, round-trip, and dial the transport they name.

const vxURIMax = 5

const vxURISteps = 200000

func vxSchemePrefix() (string, SchemeType) {
	switch vxChoose(4) {
	case 0:
		return "stun:", SchemeTypeSTUN
	case 1:
		return "stuns:", SchemeTypeSTUNS
	case 2:
		return "turn:", SchemeTypeTURN
	default:
		return "turns:", SchemeTypeTURNS
	}
}

func vh_C16_parse() {
	prefix, scheme := vxSchemePrefix()
	max := vxURIMax
	if vxThorough() {
		max = 6
	}
	s := vxASCIIString(max)
	// "time bounded by the input length": at most vxURISteps SSA instructions for an input of at most 12
	// bytes (the unchanged tree needs fewer than a tenth of that on its longest path; evidence: transitions / paths)
	vxStepBudget(vxURISteps)
	u, err := ParseURI(prefix + s) // no panic, no unbounded recursion, no unbounded loop (engine obligations)
	vxStepBudget(0)
	if err != nil {
		vxReach("rejected")
		vxAssert(u == nil, "an error comes without a URI")
		return
	}
	vxReach("accepted")
	vxAssert(u != nil, "success comes with a URI")
	vxAssert(u.Scheme == scheme, "the scheme is the one of the prefix")
}

func vh_C16_selftest() {
	s := vxASCIIString(3)
	for i := 0; i < 3; i++ { // keep away from the outcomes the URL model leaves open
		vxAssume(vxStrAt(s, i) != '#' && vxStrAt(s, i) != '/')
	}
	_, err := ParseURI("stun:" + s)
	vxAssert(err != nil, "selftest: deliberately false")
}
