package stun

// C08 — reusing a Message never leaks or corrupts data across uses.
//
// `old` is a Message in arbitrary prior state (any Raw length/capacity/content,
// stale Attributes, any Length); `fresh` is a zero Message with the same Type
// and TransactionID fields.  The same operation on both must give the same
// observable result.

func vxOldAndFresh() (old, fresh *Message) {
	old = vxStaleMessage()
	old.Raw = vxPrevRaw()
	fresh = &Message{Type: old.Type, TransactionID: old.TransactionID}
	return old, fresh
}

// vxSameContent: raw bytes, length, header fields and attribute lists agree.
func vxSameContent(a, b *Message, what string) {
	vxAssert(len(a.Raw) == len(b.Raw), what+": same raw length")
	w := vxWitness(len(a.Raw))
	vxAssert(vxAt(a.Raw, w) == vxAt(b.Raw, w), what+": same raw bytes (no stale byte, e.g. in padding)")
	vxAssert(a.Length == b.Length, what+": same Length")
	vxAssert(a.Type == b.Type, what+": same Type")
	vxAssert(a.TransactionID == b.TransactionID, what+": same TransactionID")
	vxAssert(len(a.Attributes) == len(b.Attributes), what+": same attribute count (no stale attribute)")
	for i := 0; i < len(a.Attributes) && i < len(b.Attributes); i++ {
		x, y := a.Attributes[i], b.Attributes[i]
		vxAssert(x.Type == y.Type, what+": same attribute types")
		vxAssert(x.Length == y.Length, what+": same attribute lengths")
		vxAssert(len(x.Value) == len(y.Value), what+": same value lengths")
		// (a value may legitimately still view the buffer Raw had before it grew: compare content)
		wv := vxWitness(len(x.Value))
		vxAssert(vxAt(x.Value, wv) == vxAt(y.Value, wv), what+": same attribute value bytes")
	}
}

func vh_C08_build() {
	old, fresh := vxOldAndFresh()
	na := vxChoose(vxK(2, 2)) // number of attributes built: 0..1 (a second attribute multiplied the run time by >20)
	var ss [2]RawAttribute
	for i := 0; i < na; i++ {
		n := vxInt()
		vxAssume(0 <= n)
		vxAssume(n <= 3000)
		ss[i] = RawAttribute{Type: AttrType(vxU16()), Value: vxBytes(n, n)}
	}
	var e1, e2 error
	switch na {
	case 0:
		e1, e2 = old.Build(), fresh.Build()
	case 1:
		e1, e2 = old.Build(ss[0]), fresh.Build(ss[0])
	default:
		e1, e2 = old.Build(ss[0], ss[1]), fresh.Build(ss[0], ss[1])
	}
	vxAssert(e1 == nil && e2 == nil, "Build of raw attributes succeeds")
	vxReach("built")
	vxSameContent(old, fresh, "Build into a used Message")
	for i := 0; i < na && i < len(old.Attributes); i++ {
		vxAssert(!vxSameObject(old.Attributes[i].Value, ss[i].Value), "Add copies the caller's value")
		vxAssert(len(old.Attributes[i].Value) == len(ss[i].Value), "Add keeps the value length")
		w := vxWitness(len(ss[i].Value))
		vxAssert(vxAt(old.Attributes[i].Value, w) == vxAt(ss[i].Value, w), "Add copies exactly the caller's bytes")
	}
}

// Reset + WriteHeader + Add (the manual building sequence).
func vh_C08_reset_add() {
	old, fresh := vxOldAndFresh()
	n := vxLen(3000)
	t, v := AttrType(vxU16()), vxBytes(n, n)
	old.Reset()
	old.WriteHeader()
	old.Add(t, v)
	fresh.Reset()
	fresh.WriteHeader()
	fresh.Add(t, v)
	vxReach("built")
	vxSameContent(old, fresh, "Reset+WriteHeader+Add on a used Message")
}

func vh_C08_decode() {
	vxUnwind(vxK(1, 1), true)
	old, fresh := vxOldAndFresh()
	data := vxRawBuf()
	var e1, e2 error
	switch vxChoose(4) {
	case 0:
		e1, e2 = Decode(data, old), Decode(data, fresh)
	case 1:
		_, e1 = old.Write(data)
		_, e2 = fresh.Write(data)
	case 2:
		e1, e2 = old.UnmarshalBinary(data), fresh.UnmarshalBinary(data)
	default:
		src := &Message{Raw: data}
		e1, e2 = src.CloneTo(old), src.CloneTo(fresh)
	}
	vxAssert((e1 == nil) == (e2 == nil), "same verdict as a fresh Message")
	vxAssert(!vxSameObject(old.Raw, data) && !vxSameObject(fresh.Raw, data), "input is copied, never retained")
	if e1 != nil || e2 != nil {
		vxReach("reject")
		return
	}
	vxReach("accept")
	vxUnwind(vxLoopBound, false)
	vxSameContent(old, fresh, "decoding into a used Message")
}

// MarshalBinary / CloneTo results do not share memory with the source.
func vh_C08_copies() {
	m, _, ok := vxDecoded(1)
	if !ok {
		return
	}
	b, err := m.MarshalBinary()
	vxAssert(err == nil, "MarshalBinary succeeds")
	vxAssert(!vxSameObject(b, m.Raw), "MarshalBinary returns a private copy")
	vxAssert(len(b) == len(m.Raw), "MarshalBinary returns all raw bytes")
	w := vxWitness(len(b))
	vxAssert(vxAt(b, w) == vxAt(m.Raw, w), "MarshalBinary returns exactly the raw bytes")
	g, err := m.GobEncode()
	vxAssert(err == nil && !vxSameObject(g, m.Raw) && len(g) == len(m.Raw), "GobEncode returns a private copy")
	c := new(Message)
	if vxChoose(2) == 1 {
		c.Raw = vxPrevRaw()
	}
	vxAssert(m.CloneTo(c) == nil, "clone of a decodable message decodes")
	vxAssert(!vxSameObject(c.Raw, m.Raw), "CloneTo gives the clone its own buffer")
	for i := range c.Attributes {
		vxAssert(vxSameObject(c.Attributes[i].Value, c.Raw) || len(c.Attributes[i].Value) == 0, "clone's attributes view the clone's buffer")
	}
	vxReach("copied")
}

func vh_C08_selftest() {
	old, fresh := vxOldAndFresh()
	old.WriteHeader()
	fresh.WriteHeader()
	vxAssert(old.Length == fresh.Length, "selftest: deliberately false (WriteHeader keeps a stale Length)")
}
