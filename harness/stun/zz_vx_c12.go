package stun

import (
	"errors"
	"io"
	"time"
)

// C12 — responses reach the transaction with the same ID and nothing else.
// C15 — Client.Close is final and honours connection ownership (sequential model).

type vxDatagramReader struct{ data []byte }

func (r *vxDatagramReader) Read(p []byte) (int, error) { return copy(p, r.data), nil }

// vxReaderStep: the body of the client's reader loop for one received datagram.
func vxReaderStep(c *Client, m *Message, data []byte) {
	if _, err := m.ReadFrom(&vxDatagramReader{data}); err == nil {
		_ = c.a.Process(m)
	}
}

func vh_C12_routing() {
	fb := &vxCalls{}
	withFallback := vxChoose(2) == 1
	var env *vxClientEnv
	if withFallback {
		env = vxNewClient(WithHandler(fb.handle))
	} else {
		env = vxNewClient()
	}
	stale := &vxCalls{}
	if vxChoose(2) == 1 {
		// pooled transaction objects come back in whatever state their last use left them
		n := vxLen(30)
		clientTransactionPool.Put(&clientTransaction{id: vxID(), attempt: int32(vxU8()), calls: int32(vxU8()),
			h: stale.handle, start: vxTime(), rto: 7, raw: vxBytes(n, n+vxLen(30))})
		vxReach("recycled-object")
	}
	const n = 3
	var ids [n]transactionID
	var recs [n]*vxCalls
	for i := 0; i < n; i++ {
		ids[i] = vxID()
		for j := 0; j < i; j++ {
			vxAssume(ids[i] != ids[j]) // distinct, but otherwise arbitrary (e.g. differing in one bit)
		}
		recs[i] = &vxCalls{}
		vxAssert(env.c.Start(vxRequest(ids[i], 40), recs[i].handle) == nil, "Start succeeds")
	}
	// one datagram arrives: arbitrary bytes up to the reader's 1024-byte buffer
	vxUnwind(1, true) // datagrams with at most one attribute are followed
	dn := vxLen(1024)
	data := vxBytes(dn, dn)
	if dn == 1024 {
		vxReach("full-buffer-datagram")
	}
	// the client's own reader loop runs: it receives the datagram, and when it comes back for more
	// the harness records what has happened so far and closes the client, which ends the loop
	env.conn.script = [][]byte{data}
	total := 0
	var seen [n + 1]int
	var m *Message
	env.conn.after = func() {
		for i := range recs {
			seen[i] = len(recs[i].events)
			total += seen[i]
			if seen[i] > 0 {
				m = recs[i].events[0].Message
			}
		}
		seen[n] = len(fb.events)
		total += seen[n]
		if seen[n] > 0 {
			m = fb.events[0].Message
		}
		_ = env.c.Close()
	}
	env.c.readUntilClosed()
	vxUnwind(vxLoopBound, false)
	vxAssert(len(stale.events) == 0, "a handler left in a recycled object is never invoked")
	inFlightAfter := n
	for i := range recs {
		inFlightAfter -= seen[i]
	}
	if total == 0 {
		// undecodable datagram (or unmatched without fallback): nothing changes
		vxReach("nothing-invoked")
		r := refParse(data, 1)
		vxAssert(!r.ok || r.over || !withFallback, "a decodable datagram is never dropped when a fallback handler is set")
		if r.ok {
			var rid0 transactionID
			for i := 0; i < TransactionIDSize; i++ {
				rid0[i] = vxAt(data, 8+i)
			}
			for i := range ids {
				vxAssert(ids[i] != rid0, "a decodable response to an in-flight transaction is never dropped")
			}
		}
		return
	}
	vxAssert(total == 1, "one datagram causes at most one handler invocation")
	var rid transactionID
	for i := 0; i < TransactionIDSize; i++ {
		rid[i] = vxAt(data, 8+i)
	}
	hit := -1
	for i := range ids {
		if ids[i] == rid {
			hit = i
		}
	}
	hit = vxConcretize(hit, -1, n-1)
	if hit >= 0 {
		vxReach("matched")
		vxAssert(seen[hit] == 1, "the response reaches the transaction with the same ID")
		e := recs[hit].events[0]
		vxAssert(e.TransactionID == ids[hit] && e.Error == nil && e.Message == m, "the handler sees the received message")
		vxSameBytes(e.Message.Raw, data, "the Message is the decode of exactly the received datagram")
		vxAssert(inFlightAfter == n-1, "only the matched transaction is completed")
	} else {
		vxReach("unmatched")
		vxAssert(withFallback && seen[n] == 1, "a message matching no transaction goes to the fallback handler only")
		vxAssert(fb.events[0].Message == m && fb.events[0].TransactionID == rid, "the fallback handler sees the message")
		vxAssert(inFlightAfter == n, "an unmatched message affects no transaction")
	}
}

// duplicates and late responses: second delivery of the same ID goes to the fallback handler only
func vh_C12_duplicate() {
	fb := &vxCalls{}
	env := vxNewClient(WithHandler(fb.handle))
	id, other := vxID(), vxID()
	vxAssume(id != other)
	rec, recOther := &vxCalls{}, &vxCalls{}
	vxAssert(env.c.Start(vxRequest(id, 40), rec.handle) == nil, "Start succeeds")
	vxAssert(env.c.Start(vxRequest(other, 40), recOther.handle) == nil, "Start succeeds")
	r1, r2 := &Message{TransactionID: id}, &Message{TransactionID: id}
	_ = env.deliver(r1)
	_ = env.deliver(r2) // duplicate / late
	vxAssert(len(rec.events) == 1 && rec.events[0].Message == r1, "the first response completes the transaction")
	vxAssert(len(fb.events) == 1 && fb.events[0].Message == r2, "the duplicate goes to the fallback handler")
	vxAssert(len(recOther.events) == 0, "no other transaction is affected")
	// a transaction started afterwards with a recycled object is independent of the finished one
	rec3 := &vxCalls{}
	id3 := vxID()
	vxAssume(id3 != other)
	vxAssert(env.c.Start(vxRequest(id3, 40), rec3.handle) == nil, "Start with a recycled transaction object succeeds")
	_ = env.deliver(&Message{TransactionID: id3})
	vxAssert(len(rec3.events) == 1 && len(rec.events) == 1, "the recycled object delivers to its new handler exactly once")
	vxReach("done")
}

// a late response after the final timeout, with the pooled transaction object reused in between
func vh_C12_late_after_timeout() {
	fb := &vxCalls{}
	env := vxNewClient(WithHandler(fb.handle))
	env.c.maxAttempts = 0
	env.c.SetRTO(100)
	a, b := vxID(), vxID()
	vxAssume(a != b)
	recA, recB := &vxCalls{}, &vxCalls{}
	vxAssert(env.c.Start(vxRequest(a, 40), recA.handle) == nil, "Start A succeeds")
	env.tick(env.clock.now.Add(1000)) // A times out for good
	vxAssert(len(recA.events) == 1 && errors.Is(recA.events[0].Error, ErrTransactionTimeOut), "A is timed out")
	vxAssert(env.c.Start(vxRequest(b, 40), recB.handle) == nil, "Start B succeeds (it may reuse A's pooled object)")
	late := &Message{TransactionID: a}
	_ = env.deliver(late)
	vxAssert(len(recB.events) == 0, "a late response for A is not delivered to B")
	vxAssert(len(recA.events) == 1, "A's handler is not invoked again")
	vxAssert(len(fb.events) == 1 && fb.events[0].Message == late, "the late response goes to the fallback handler")
	resp := &Message{TransactionID: b}
	_ = env.deliver(resp)
	vxAssert(len(recB.events) == 1 && recB.events[0].Message == resp, "B still receives its own response")
	vxReach("done")
}

// a late response after a failed retransmission write
func vh_C12_late_after_write_error() {
	fb := &vxCalls{}
	env := vxNewClient(WithHandler(fb.handle))
	env.c.maxAttempts = 2
	env.c.SetRTO(100)
	a, b := vxID(), vxID()
	vxAssume(a != b)
	recA, recB := &vxCalls{}, &vxCalls{}
	vxAssert(env.c.Start(vxRequest(a, 40), recA.handle) == nil, "Start A succeeds")
	env.conn.failNext = true
	env.tick(env.clock.now.Add(1000)) // A's retransmission fails: A ends with the write error
	vxAssert(len(recA.events) == 1 && recA.events[0].Error != nil, "A ends with the write error")
	late := &Message{TransactionID: a}
	_ = env.deliver(late)
	vxAssert(len(recA.events) == 1, "A's handler is not invoked again")
	vxAssert(len(fb.events) == 1 && fb.events[0].Message == late, "a late response for the ended transaction goes to the fallback handler")
	vxAssert(env.c.Start(vxRequest(b, 40), recB.handle) == nil, "Start B succeeds (it may reuse A's pooled object)")
	late2 := &Message{TransactionID: a}
	_ = env.deliver(late2)
	vxAssert(len(recB.events) == 0 && len(fb.events) == 2, "another late response for A does not reach B")
	resp := &Message{TransactionID: b}
	_ = env.deliver(resp)
	vxAssert(len(recB.events) == 1 && recB.events[0].Message == resp, "B still receives its own response")
	vxReach("done")
}

// stopped transactions: the stop event reaches the handler; a Stop for an unknown ID is not passed to the fallback
func vh_C12_selftest() {
	env := vxNewClient()
	id := vxID()
	rec := &vxCalls{}
	vxAssert(env.c.Start(vxRequest(id, 40), rec.handle) == nil, "Start succeeds")
	other := vxID()
	_ = env.deliver(&Message{TransactionID: other})
	vxAssert(len(rec.events) == 1, "selftest: deliberately false")
}

// ---------------------------------------------------------------- C15

type vxFailingAgent struct {
	*Agent
	closeErr error
}

func (a *vxFailingAgent) Close() error {
	_ = a.Agent.Close()
	return a.closeErr
}

func vh_C15_close() {
	noConnClose := vxChoose(2) == 1
	connFails := vxChoose(2) == 1
	agentFails := vxChoose(2) == 1
	fb := &vxCalls{}
	var opts []ClientOption
	if noConnClose {
		opts = append(opts, WithNoConnClose())
	}
	if vxChoose(2) == 1 {
		opts = append(opts, WithHandler(fb.handle))
	}
	if vxChoose(2) == 1 {
		opts = append(opts, WithNoRetransmit)
	}
	if agentFails {
		opts = append(opts, WithAgent(&vxFailingAgent{Agent: NewAgent(nil), closeErr: errVxCallback}))
	}
	env := vxNewClient(opts...)
	if connFails {
		env.conn.closeErr = errVxClose
	}
	rec := &vxCalls{}
	id := vxID()
	inflight := vxChoose(2) == 1
	if inflight {
		vxAssert(env.c.Start(vxRequest(id, 40), rec.handle) == nil, "Start succeeds")
	}
	overlap := vxChoose(2) == 1
	var overlapErr error
	if overlap {
		// a second Close arrives while the first is inside collector.Close()
		env.coll.onClose = func() { overlapErr = env.c.Close() }
		vxReach("overlapping-close")
	}
	vxGuard("Client", "closed", "mux")
	vxGuard("Client", "t", "mux")
	vxGuard("Client", "rto", "@atomic")
	vxGuard("Client", "maxAttempts", "@atomic")
	env.c.SetRTO(time.Duration(1 + vxLen(1000))) // SetRTO may run concurrently with everything else: atomic access only
	err := env.c.Close()
	vxGuardsOff()
	if overlap {
		vxAssert(errors.Is(overlapErr, ErrClientClosed), "a Close overlapping the first one returns ErrClientClosed")
	}
	wantConnErr := connFails && !noConnClose
	if !agentFails && !wantConnErr {
		vxReach("clean-close")
		vxAssert(err == nil, "Close returns nil when agent and connection closed cleanly")
	} else {
		vxReach("close-error")
		var ce CloseErr
		vxAssert(errors.As(err, &ce), "Close reports a CloseErr when closing the agent or the connection failed")
		vxAssert((ce.AgentErr != nil) == agentFails && (!agentFails || ce.AgentErr == errVxCallback), "CloseErr carries the agent's error")
		vxAssert((ce.ConnectionErr != nil) == wantConnErr && (!wantConnErr || ce.ConnectionErr == errVxClose), "CloseErr carries the connection's error")
	}
	if noConnClose {
		vxReach("no-conn-close")
		vxAssert(env.conn.closed == 0, "the connection is never closed under WithNoConnClose")
	} else {
		vxAssert(env.conn.closed == 1, "the connection is closed exactly once")
	}
	vxAssert(env.coll.closed == 1, "the collector is closed")
	if inflight {
		vxAssert(len(rec.events) == 1, "the in-flight transaction is completed by Close")
	}
	handled := len(rec.events) + len(fb.events)
	writes := len(env.conn.writes)
	// Close is final
	vxAssert(errors.Is(env.c.Close(), ErrClientClosed), "a second Close returns ErrClientClosed")
	vxAssert(env.conn.closed <= 1, "the connection is not closed again")
	rec2 := &vxCalls{}
	vxAssert(errors.Is(env.c.Start(vxRequest(vxID(), 40), rec2.handle), ErrClientClosed), "Start after Close returns ErrClientClosed")
	vxAssert(errors.Is(env.c.Indicate(vxRequest(vxID(), 40)), ErrClientClosed), "Indicate after Close returns ErrClientClosed")
	vxAssert(errors.Is(env.c.Do(vxRequest(vxID(), 40), rec2.handle), ErrClientClosed), "Do after Close returns ErrClientClosed")
	vxAssert(len(env.conn.writes) == writes, "nothing is written after Close")
	// no handler runs afterwards: later reader / collector activity finds a closed agent
	_ = env.c.a.Process(&Message{TransactionID: id})
	_ = env.c.a.Collect(vxTime())
	vxAssert(len(rec.events)+len(fb.events) == handled && len(rec2.events) == 0, "no handler is invoked after Close has returned")
	// the reader's loop terminates at once (the close channel is closed)
	stopped := false
	select {
	case <-env.c.close:
		stopped = true
	default:
	}
	vxAssert(stopped, "the reader's stop channel is closed when Close returns")
	if !stopped {
		return
	}
	env.c.readUntilClosed()
	vxAssert(env.conn.reads == 0, "the reader does not touch the connection after Close")
	vxReach("reader-exits")
}

// nil-safety of the entry points on a client that was never initialised
// the reader sees EOF before Close is called: the connection is still closed exactly once, by Close
func vh_C15_reader_eof() {
	noConnClose := vxChoose(2) == 1
	var env *vxClientEnv
	if noConnClose {
		env = vxNewClient(WithNoConnClose())
	} else {
		env = vxNewClient()
	}
	env.conn.eofs = 1 + vxChoose(2) // the peer shut the stream down: Read returns EOF once or twice
	var closeErr error
	closedBefore := -1
	env.conn.after = func() {
		closedBefore = env.conn.closed
		closeErr = env.c.Close()
	}
	env.c.readUntilClosed() // EOF(s), then Close arrives while the reader is back in Read
	vxReach("done")
	vxAssert(closedBefore == 0, "the reader does not close the connection on EOF")
	vxAssert(closeErr == nil, "Close succeeds")
	if noConnClose {
		vxAssert(env.conn.closed == 0, "the connection is never closed under WithNoConnClose")
	} else {
		vxAssert(env.conn.closed == 1, "the connection is closed exactly once")
	}
}

func vh_C15_uninitialised() {
	var c *Client
	if vxChoose(2) == 1 {
		c = &Client{}
	}
	vxAssert(errors.Is(c.Close(), ErrClientNotInitialized), "Close on an uninitialised client")
	vxAssert(errors.Is(c.Start(new(Message), nil), ErrClientNotInitialized), "Start on an uninitialised client")
	vxAssert(errors.Is(c.Do(new(Message), nil), ErrClientNotInitialized), "Do on an uninitialised client")
	vxReach("done")
}

func vh_C15_selftest() {
	env := vxNewClient()
	_ = env.c.Close()
	vxAssert(env.conn.closed == 0, "selftest: deliberately false")
}

var _ = io.EOF
