package stun

import (
	"errors"
	"time"
)

// C14 — linearizability of the Agent under overlap at its hand-over points.
//
// The Agent's only call-out is the handler, invoked after the critical section
// (except in Close).  Another goroutine's call can therefore overlap a call in
// progress exactly there: between the critical section and each event delivery.
// vh_C14_overlap runs a short sequence of calls with symbolic arguments from an
// arbitrary table; inside every handler invocation that happens outside the
// mutex, a whole further call (symbolically chosen, within a budget) may run —
// as a concurrent goroutine's call would (LIFO overlap), or as a handler that
// calls back into the agent.  Specification: the abstract transaction table
// applied in the order of the critical sections, which — the lock-set guards
// show each call has exactly one, at its start — is the order in which the
// calls begin.  Every return value and the multiset of all events must be those
// of that serial order; in particular of several overlapping terminators of one
// transaction exactly one emits.

type vxExp struct {
	id  transactionID
	err error
	msg *Message
}

type vxLin struct {
	a        *Agent
	rec      *vxEvents
	ids      [2]transactionID
	present  [2]bool
	deadline [2]time.Time
	closed   bool
	exp      []vxExp
	budget   int
}

func vxAgentErrClass(err error) int {
	switch {
	case err == nil:
		return 0
	case errors.Is(err, ErrAgentClosed):
		return 1
	case errors.Is(err, ErrTransactionExists):
		return 2
	case errors.Is(err, ErrTransactionNotExists):
		return 3
	}
	return 4
}

// op: one call with symbolic arguments; the specification is applied when the call begins.
func (l *vxLin) op() {
	j := vxChoose(2)
	id := l.ids[j]
	want := 0
	if l.closed {
		want = 1
	}
	switch vxChoose(5) {
	case 0:
		d := vxTime()
		if !l.closed {
			if l.present[j] {
				want = 2
			} else {
				l.present[j], l.deadline[j] = true, d
			}
		}
		vxAssert(vxAgentErrClass(l.a.Start(id, d)) == want, "overlap: Start returns what the serial order of critical sections gives")
		vxReach("start")
	case 1:
		if !l.closed {
			if !l.present[j] {
				want = 3
			} else {
				l.present[j] = false
				l.exp = append(l.exp, vxExp{id: id, err: ErrTransactionStopped})
			}
		}
		vxAssert(vxAgentErrClass(l.a.Stop(id)) == want, "overlap: Stop returns what the serial order of critical sections gives")
		vxReach("stop")
	case 2:
		m := &Message{TransactionID: id, Type: vxAnyType()}
		if !l.closed {
			l.present[j] = false
			l.exp = append(l.exp, vxExp{id: id, msg: m})
		}
		vxAssert(vxAgentErrClass(l.a.Process(m)) == want, "overlap: Process returns what the serial order of critical sections gives")
		vxReach("process")
	case 3:
		t := vxTime()
		if !l.closed {
			for k := range l.ids {
				if l.present[k] && l.deadline[k].Before(t) {
					l.present[k] = false
					l.exp = append(l.exp, vxExp{id: l.ids[k], err: ErrTransactionTimeOut})
				}
			}
		}
		vxAssert(vxAgentErrClass(l.a.Collect(t)) == want, "overlap: Collect returns what the serial order of critical sections gives")
		vxReach("collect")
	default:
		if !l.closed {
			for k := range l.ids {
				if l.present[k] {
					l.present[k] = false
					l.exp = append(l.exp, vxExp{id: l.ids[k], err: ErrAgentClosed})
				}
			}
			l.closed = true
		}
		vxAssert(vxAgentErrClass(l.a.Close()) == want, "overlap: Close returns what the serial order of critical sections gives")
		vxReach("close")
	}
}

func vh_C14_overlap() {
	l := &vxLin{rec: &vxEvents{}, budget: 1} // depth 3 with 2 overlapping calls exhausts 200 000 paths
	l.a = NewAgent(l.rec.handle)
	l.rec.agent = l.a
	l.ids = [2]transactionID{vxID(), vxID()}
	vxAssume(l.ids[0] != l.ids[1])
	for k := range l.ids {
		if vxBool() {
			l.present[k], l.deadline[k] = true, vxTime()
			l.a.transactions[l.ids[k]] = agentTransaction{id: l.ids[k], deadline: l.deadline[k]}
		}
	}
	l.rec.hook = func(Event) {
		// the handler runs outside the mutex: another call may overlap here
		if l.budget > 0 && vxChoose(2) == 1 {
			l.budget--
			vxReach("overlapping-call")
			l.op()
		}
	}
	vxGuardsOn()
	depth := vxK(2, 3)
	for step := 0; step < depth; step++ {
		l.op()
	}
	vxGuardsOff()
	vxAssert(len(l.rec.list) == len(l.exp), "overlap: the calls emit exactly the events of the serial order (count)")
	for _, x := range l.exp {
		n := 0
		for _, e := range l.rec.list {
			if e.TransactionID == x.id && e.Error == x.err && e.Message == x.msg {
				n++
			}
		}
		w := 0
		for _, y := range l.exp {
			if y.id == x.id && y.err == x.err && y.msg == x.msg {
				w++
			}
		}
		vxAssert(n == w, "overlap: every event of the serial order is emitted exactly as often as specified")
	}
	vxAssert(l.a.closed == l.closed, "overlap: closed flag")
	if !l.closed {
		for k := range l.ids {
			t, ok := l.a.transactions[l.ids[k]]
			vxAssert(ok == l.present[k], "overlap: table membership agrees with the serial order")
			if ok {
				vxAssert(t.deadline.Equal(l.deadline[k]), "overlap: stored deadline agrees with the serial order")
			}
		}
		n := 0
		for k := range l.present {
			if l.present[k] {
				n++
			}
		}
		vxAssert(len(l.a.transactions) == n, "overlap: table size")
	}
	for i := range l.rec.underLock {
		// events of Close are delivered under the mutex by design; all others after the unlock
		vxAssert(!l.rec.underLock[i] || errors.Is(l.rec.list[i].Error, ErrAgentClosed), "overlap: handlers run after the mutex has been released (except in Close)")
	}
}
