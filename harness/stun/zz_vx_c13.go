package stun

import (
	"errors"
	"time"
)

// C13 — the Agent behaves as its transaction-table specification.
// C14 — lock discipline of the Agent (reduced form of the concurrency property).
//
// One inductive step: the concrete pre-state is a real Agent whose table is
// built from symbolic slots (any IDs, any deadlines, any subset present, open or
// closed); one call with symbolic arguments is executed; return value, emitted
// events (as a multiset) and post-state are compared with the abstract table.
// NewAgent corresponds to the empty open table (base case), so by induction every
// call sequence on tables of at most vxSlots entries is covered.

const vxSlots = 4 // the fourth slot is used in the thorough tier only

type vxSlot struct {
	present  bool
	id       transactionID
	deadline time.Time
}

type vxEvents struct {
	list      []Event
	underLock []bool // was the agent's mutex held when the handler ran?
	agent     *Agent
	reenter   bool
	alsoStop  []transactionID // re-entrant handler also stops these IDs (terminators racing at the hand-over point)
	hook      func(Event)     // further activity overlapping the call in progress (runs inside the handler, outside the mutex)
}

func (r *vxEvents) handle(e Event) {
	r.list = append(r.list, e)
	held := r.agent != nil && vxMutexHeld(&r.agent.mux)
	r.underLock = append(r.underLock, held)
	if r.reenter && r.agent != nil && !held {
		// handlers may call back into the agent (outside Close): must not deadlock
		_ = r.agent.Stop(e.TransactionID)
		for _, id := range r.alsoStop {
			_ = r.agent.Stop(id)
		}
	}
	if r.hook != nil && !held {
		r.hook(e)
	}
}

// vxAgentState builds an Agent in an arbitrary state of at most vxSlots entries.
func vxAgentState(rec *vxEvents) (*Agent, [vxSlots]vxSlot, bool) {
	a := NewAgent(rec.handle)
	rec.agent = a
	var slots [vxSlots]vxSlot
	for i := 0; i < vxSlots; i++ {
		if i >= vxK(3, 4) {
			continue // absent
		}
		slots[i] = vxSlot{present: vxBool(), id: vxID(), deadline: vxTime()}
		for j := 0; j < i; j++ {
			vxAssume(!slots[i].present || !slots[j].present || slots[i].id != slots[j].id)
		}
		if slots[i].present {
			a.transactions[slots[i].id] = agentTransaction{id: slots[i].id, deadline: slots[i].deadline}
		}
	}
	closed := vxBool()
	if closed {
		for i := range slots {
			vxAssume(!slots[i].present) // a closed agent holds no transactions
		}
		a.transactions, a.closed, a.handler = nil, true, nil
	}
	return a, slots, closed
}

func vxSlotIndex(slots *[vxSlots]vxSlot, id transactionID) int {
	r := -1
	for i := vxSlots - 1; i >= 0; i-- {
		if slots[i].present && slots[i].id == id {
			r = i
		}
	}
	return vxConcretize(r, -1, vxSlots-1)
}

// vxEmitted: number of recorded events with this ID and error (Message identity checked by the caller).
func vxEmitted(rec *vxEvents, id transactionID, err error) int {
	n := 0
	for _, e := range rec.list {
		if e.TransactionID == id && e.Error == err {
			n++
		}
	}
	return n
}

// vxCheckPost: the agent's table equals the abstract post-table (witness ID + sizes).
func vxCheckPost(a *Agent, post *[vxSlots]vxSlot, extra *vxSlot, closed bool, what string) {
	vxAssert(a.closed == closed, what+": closed flag")
	size := 0
	for i := range post {
		if post[i].present {
			size++
		}
	}
	if extra != nil {
		size++
	}
	if closed {
		vxAssert(len(a.transactions) == 0, what+": a closed agent holds no transactions")
		return
	}
	vxAssert(len(a.transactions) == size, what+": table size")
	w := vxID() // witness: membership and deadline agree for every ID
	t, ok := a.transactions[w]
	wi := vxSlotIndex(post, w)
	inExtra := extra != nil && extra.id == w
	vxAssert(ok == (wi >= 0 || inExtra), what+": membership of every ID agrees with the specification")
	if ok && wi >= 0 {
		vxAssert(t.id == w && t.deadline.Equal(post[wi].deadline), what+": stored deadline agrees with the specification")
	}
	if ok && inExtra && wi < 0 {
		vxAssert(t.id == w && t.deadline.Equal(extra.deadline), what+": stored deadline of the new transaction")
	}
}

func vxGuardsOn() {
	vxGuard("Agent", "transactions", "mux")
	vxGuard("Agent", "closed", "mux")
	vxGuard("Agent", "handler", "mux")
}

// vxDiscipline: C14's per-call assertions.
func vxDiscipline(a *Agent, rec *vxEvents, isClose bool, what string) {
	vxAssert(!vxMutexHeld(&a.mux), what+": the mutex is released on return")
	if !isClose {
		for i := range rec.underLock {
			vxAssert(!rec.underLock[i], what+": the handler runs after the mutex has been released")
		}
	}
}

func vh_C13_start() {
	rec := &vxEvents{}
	a, slots, closed := vxAgentState(rec)
	id, d := vxID(), vxTime()
	vxGuardsOn()
	err := a.Start(id, d)
	vxGuardsOff()
	vxDiscipline(a, rec, false, "Start")
	vxAssert(len(rec.list) == 0, "Start emits nothing")
	switch {
	case closed:
		vxReach("closed")
		vxAssert(errors.Is(err, ErrAgentClosed), "Start on a closed agent fails with ErrAgentClosed")
		vxCheckPost(a, &slots, nil, true, "Start/closed")
	case vxSlotIndex(&slots, id) >= 0:
		vxReach("duplicate")
		vxAssert(errors.Is(err, ErrTransactionExists), "Start with a registered ID fails with ErrTransactionExists")
		vxCheckPost(a, &slots, nil, false, "Start/duplicate")
	default:
		vxReach("registered")
		vxAssert(err == nil, "Start with a new ID succeeds")
		vxCheckPost(a, &slots, &vxSlot{present: true, id: id, deadline: d}, false, "Start/new")
	}
}

func vh_C13_stop() {
	rec := &vxEvents{reenter: vxChoose(2) == 1}
	a, slots, closed := vxAgentState(rec)
	id := vxID()
	var cause error = ErrTransactionStopped
	var err error
	vxGuardsOn()
	if vxChoose(2) == 0 {
		err = a.Stop(id)
	} else {
		cause = errVxCallback
		err = a.StopWithError(id, cause)
	}
	vxGuardsOff()
	vxDiscipline(a, rec, false, "Stop")
	i := vxSlotIndex(&slots, id)
	switch {
	case closed:
		vxReach("closed")
		vxAssert(errors.Is(err, ErrAgentClosed), "Stop on a closed agent fails with ErrAgentClosed")
		vxAssert(len(rec.list) == 0, "a closed agent emits nothing")
	case i < 0:
		vxReach("unknown")
		vxAssert(errors.Is(err, ErrTransactionNotExists), "Stop of an unregistered ID reports not-exists")
		vxAssert(len(rec.list) == 0, "Stop of an unregistered ID emits nothing")
		vxCheckPost(a, &slots, nil, false, "Stop/unknown")
	default:
		vxReach("stopped")
		vxAssert(err == nil, "Stop of a registered ID succeeds")
		vxAssert(len(rec.list) == 1 && vxEmitted(rec, id, cause) == 1, "Stop emits exactly one stopped event for that ID")
		vxAssert(rec.list[0].Message == nil, "the stopped event carries no message")
		slots[i].present = false
		vxCheckPost(a, &slots, nil, false, "Stop/registered")
	}
}

func vh_C13_process() {
	rec := &vxEvents{reenter: vxChoose(2) == 1}
	a, slots, closed := vxAgentState(rec)
	m := &Message{TransactionID: vxID(), Type: vxAnyType()} // any method and class: "Process always emits and unregisters"
	vxGuardsOn()
	err := a.Process(m)
	vxGuardsOff()
	vxDiscipline(a, rec, false, "Process")
	if closed {
		vxReach("closed")
		vxAssert(errors.Is(err, ErrAgentClosed), "Process on a closed agent fails with ErrAgentClosed")
		vxAssert(len(rec.list) == 0, "a closed agent emits nothing")
		return
	}
	vxAssert(err == nil, "Process succeeds on an open agent")
	vxAssert(len(rec.list) == 1, "Process emits exactly one event")
	e := rec.list[0]
	vxAssert(e.TransactionID == m.TransactionID && e.Message == m && e.Error == nil, "the event carries the message and its ID")
	if i := vxSlotIndex(&slots, m.TransactionID); i >= 0 {
		vxReach("matched")
		slots[i].present = false
	} else {
		vxReach("unmatched")
	}
	vxCheckPost(a, &slots, nil, false, "Process")
}

func vh_C13_collect() {
	rec := &vxEvents{reenter: vxChoose(2) == 1}
	a, slots, closed := vxAgentState(rec)
	t := vxTime()
	if rec.reenter && !closed {
		// another terminator (Stop) for every transaction that this Collect times out, issued from inside the
		// first timeout's handler: of the concurrent terminators exactly one may emit
		for i := range slots {
			if slots[i].present && slots[i].deadline.Before(t) {
				rec.alsoStop = append(rec.alsoStop, slots[i].id)
			}
		}
	}
	vxGuardsOn()
	err := a.Collect(t)
	vxGuardsOff()
	vxDiscipline(a, rec, false, "Collect")
	if closed {
		vxReach("closed")
		vxAssert(errors.Is(err, ErrAgentClosed), "Collect on a closed agent fails with ErrAgentClosed")
		vxAssert(len(rec.list) == 0, "a closed agent emits nothing")
		return
	}
	vxAssert(err == nil, "Collect succeeds on an open agent")
	expected := 0
	for i := range slots {
		due := slots[i].present && slots[i].deadline.Before(t) // strictly before
		if due {
			expected++
			vxAssert(vxEmitted(rec, slots[i].id, ErrTransactionTimeOut) == 1, "a transaction whose deadline is strictly before t gets exactly one timeout")
			slots[i].present = false
		} else if slots[i].present {
			vxAssert(vxEmitted(rec, slots[i].id, ErrTransactionTimeOut) == 0, "a transaction whose deadline is not before t gets no timeout")
			if slots[i].deadline.Equal(t) {
				vxReach("deadline-equals-t")
			}
		}
	}
	if expected > 0 {
		vxReach("timed-out")
	}
	vxAssert(len(rec.list) == expected, "Collect emits nothing else")
	for _, e := range rec.list {
		vxAssert(e.Message == nil, "timeout events carry no message")
	}
	vxCheckPost(a, &slots, nil, false, "Collect")
}

// vh_C13_collect_overlap: a second Collect (preceded by a Start) overlaps the first one at its hand-over
// point — issued from inside the first timeout's handler, which is where another goroutine's Collect can
// run between the first one's critical section and its event delivery ("safe to call Collect
// concurrently").  Serial specification: the outer critical section times out everything due at t; then
// Start registers the new ID; then the inner Collect times out what is due at t2, the new ID included.
func vh_C13_collect_overlap() {
	rec := &vxEvents{}
	a, slots, closed := vxAgentState(rec)
	vxAssume(!closed)
	t, t2, nd := vxTime(), vxTime(), vxTime()
	nid := vxID()
	for i := range slots {
		vxAssume(!slots[i].present || slots[i].id != nid)
	}
	fired := false
	var serr, cerr error
	rec.hook = func(Event) {
		if fired {
			return
		}
		fired = true
		serr = a.Start(nid, nd)
		cerr = a.Collect(t2)
	}
	vxGuardsOn()
	err := a.Collect(t)
	vxGuardsOff()
	vxAssert(err == nil, "Collect succeeds on an open agent")
	expected := 0
	for i := range slots {
		due1 := slots[i].present && slots[i].deadline.Before(t)
		due2 := slots[i].present && !due1 && slots[i].deadline.Before(t2)
		if due1 {
			expected++
		}
		if due1 || (fired && due2) {
			vxAssert(vxEmitted(rec, slots[i].id, ErrTransactionTimeOut) == 1, "overlapping Collects: every due transaction gets exactly one timeout")
			slots[i].present = false
		} else if slots[i].present {
			vxAssert(vxEmitted(rec, slots[i].id, ErrTransactionTimeOut) == 0, "overlapping Collects: a transaction that is not due gets no timeout")
		}
		if fired && due2 {
			expected++
		}
	}
	vxAssert(fired == (expected > 0), "the overlapping activity runs inside the first handler call")
	if !fired {
		return
	}
	vxReach("overlap")
	vxAssert(serr == nil && cerr == nil, "the overlapping Start and Collect succeed")
	var extra *vxSlot
	if nd.Before(t2) {
		vxReach("new-id-timed-out")
		expected++
		vxAssert(vxEmitted(rec, nid, ErrTransactionTimeOut) == 1, "overlapping Collects: the transaction started in between gets exactly one timeout")
	} else {
		vxAssert(vxEmitted(rec, nid, ErrTransactionTimeOut) == 0, "overlapping Collects: the transaction started in between is not timed out early")
		extra = &vxSlot{present: true, id: nid, deadline: nd}
	}
	vxAssert(len(rec.list) == expected, "overlapping Collects emit nothing else")
	vxCheckPost(a, &slots, extra, false, "overlapping Collects")
}

// vxAnyType: an arbitrary message type (any 12-bit method, any of the four classes).
func vxAnyType() MessageType {
	return MessageType{Method: Method(vxU16() & 0xfff), Class: MessageClass(vxU8() & 3)}
}

// vh_C13_collect_many: more timed-out transactions in one Collect than any internal batch or pre-allocated
// scratch holds (the source pre-allocates room for 100 IDs): 101 registered transactions with concrete IDs,
// the first 50 with deadline d1 and the rest with d2 (symbolic instants), one Collect(t): every transaction
// whose deadline is strictly before t is timed out by this call, none is left behind, no other is touched.
func vh_C13_collect_many() {
	rec := &vxEvents{}
	a := NewAgent(rec.handle)
	rec.agent = a
	d1, d2, t := vxTime(), vxTime(), vxTime()
	const n, k = 101, 50
	vxUnwind(4*n, false) // loops over the table are checked against this bound, not cut
	for i := 0; i < n; i++ {
		var id transactionID
		id[0], id[1] = byte(i), 0x80
		d := d2
		if i < k {
			d = d1
		}
		vxAssert(a.Start(id, d) == nil, "Start of a new ID succeeds")
	}
	vxAssert(a.Collect(t) == nil, "Collect succeeds on an open agent")
	want := 0
	if d1.Before(t) {
		want += k
		vxReach("first-group-due")
	}
	if d2.Before(t) {
		want += n - k
		vxReach("second-group-due")
	}
	if want == n {
		vxReach("all-101-due")
	}
	vxAssert(len(rec.list) == want, "Collect times out every due transaction in one call, however many there are")
	vxAssert(len(a.transactions) == n-want, "exactly the transactions that are not due stay registered")
	for _, e := range rec.list {
		vxAssert(e.Error == ErrTransactionTimeOut && e.TransactionID[1] == 0x80, "only timeouts of registered transactions are emitted")
	}
}

func vh_C13_sethandler_close() {
	rec := &vxEvents{}
	a, slots, closed := vxAgentState(rec)
	rec2 := &vxEvents{agent: a}
	if vxChoose(2) == 0 {
		vxGuardsOn()
		err := a.SetHandler(rec2.handle)
		vxGuardsOff()
		vxDiscipline(a, rec, false, "SetHandler")
		if closed {
			vxReach("closed")
			vxAssert(errors.Is(err, ErrAgentClosed), "SetHandler on a closed agent fails with ErrAgentClosed")
			return
		}
		vxReach("handler-set")
		vxAssert(err == nil && len(rec.list) == 0, "SetHandler succeeds and emits nothing")
		vxCheckPost(a, &slots, nil, false, "SetHandler")
		// later events go to the new handler only
		m := &Message{TransactionID: vxID()}
		vxAssert(a.Process(m) == nil, "Process after SetHandler succeeds")
		vxAssert(len(rec.list) == 0 && len(rec2.list) == 1, "events go to the new handler only")
		return
	}
	vxGuardsOn()
	err := a.Close()
	vxGuardsOff()
	vxDiscipline(a, rec, true, "Close")
	if closed {
		vxReach("closed")
		vxAssert(errors.Is(err, ErrAgentClosed), "Close on a closed agent fails with ErrAgentClosed")
		vxAssert(len(rec.list) == 0, "a closed agent emits nothing")
		return
	}
	vxReach("closing")
	vxAssert(err == nil, "Close succeeds once")
	expected := 0
	for i := range slots {
		if slots[i].present {
			expected++
			vxAssert(vxEmitted(rec, slots[i].id, ErrAgentClosed) == 1, "every remaining transaction gets exactly one closed event")
			slots[i].present = false
		}
	}
	vxAssert(len(rec.list) == expected, "Close emits nothing else")
	vxCheckPost(a, &slots, nil, true, "Close")
	// after Close every call returns ErrAgentClosed and emits nothing
	before := len(rec.list)
	id := vxID()
	vxAssert(errors.Is(a.Start(id, vxTime()), ErrAgentClosed), "Start after Close")
	vxAssert(errors.Is(a.Stop(id), ErrAgentClosed), "Stop after Close")
	vxAssert(errors.Is(a.Process(&Message{TransactionID: id}), ErrAgentClosed), "Process after Close")
	vxAssert(errors.Is(a.Collect(vxTime()), ErrAgentClosed), "Collect after Close")
	vxAssert(errors.Is(a.SetHandler(rec2.handle), ErrAgentClosed), "SetHandler after Close")
	vxAssert(errors.Is(a.Close(), ErrAgentClosed), "second Close")
	vxAssert(len(rec.list) == before && len(rec2.list) == 0, "nothing is emitted after Close")
}

// base case: NewAgent is the empty open table
func vh_C13_new() {
	rec := &vxEvents{}
	var a *Agent
	if vxChoose(2) == 0 {
		a = NewAgent(rec.handle)
	} else {
		a = NewAgent(nil) // no-op handler
	}
	var empty [vxSlots]vxSlot
	vxCheckPost(a, &empty, nil, false, "NewAgent")
	vxAssert(a.handler != nil, "NewAgent always installs a handler")
	vxAssert(a.Process(&Message{TransactionID: vxID()}) == nil, "a fresh agent processes messages")
	vxReach("new")
}

func vh_C13_selftest() {
	rec := &vxEvents{}
	a, _, closed := vxAgentState(rec)
	if closed {
		return
	}
	vxAssert(a.Collect(vxTime()) == nil && len(rec.list) == 0, "selftest: deliberately false")
}

// vxEmittedSince: events recorded from index `from` on with this ID and error.
func vxEmittedSince(rec *vxEvents, from int, id transactionID, err error) int {
	n := 0
	for i := from; i < len(rec.list); i++ {
		if rec.list[i].TransactionID == id && rec.list[i].Error == err {
			n++
		}
	}
	return n
}

// Call histories from a fresh agent (complements the one-step induction: state that an implementation
// keeps outside the transaction table, e.g. a cached "last collect time", only shows in sequences).
func vh_C13_history() {
	rec := &vxEvents{}
	a := NewAgent(rec.handle)
	rec.agent = a
	ids := [2]transactionID{vxID(), vxID()}
	vxAssume(ids[0] != ids[1])
	var present [2]bool
	var deadline [2]time.Time
	closed := false
	depth := vxK(4, 5)
	for step := 0; step < depth; step++ {
		j := vxChoose(2)
		id := ids[j]
		from := len(rec.list)
		switch vxChoose(5) {
		case 0:
			d := vxTime()
			err := a.Start(id, d)
			switch {
			case closed:
				vxAssert(errors.Is(err, ErrAgentClosed), "history: Start on a closed agent")
			case present[j]:
				vxAssert(errors.Is(err, ErrTransactionExists), "history: duplicate Start is rejected")
			default:
				vxAssert(err == nil, "history: Start of a new ID succeeds")
				present[j], deadline[j] = true, d
			}
			vxAssert(len(rec.list) == from, "history: Start emits nothing")
			vxReach("start")
		case 1:
			err := a.Stop(id)
			switch {
			case closed:
				vxAssert(errors.Is(err, ErrAgentClosed) && len(rec.list) == from, "history: Stop on a closed agent")
			case !present[j]:
				vxAssert(errors.Is(err, ErrTransactionNotExists) && len(rec.list) == from, "history: Stop of an unregistered ID")
			default:
				vxAssert(err == nil && len(rec.list) == from+1 && vxEmittedSince(rec, from, id, ErrTransactionStopped) == 1, "history: Stop emits one stopped event")
				present[j] = false
			}
			vxReach("stop")
		case 2:
			m := &Message{TransactionID: id, Type: vxAnyType()}
			err := a.Process(m)
			if closed {
				vxAssert(errors.Is(err, ErrAgentClosed) && len(rec.list) == from, "history: Process on a closed agent")
			} else {
				vxAssert(err == nil && len(rec.list) == from+1 && rec.list[from].Message == m, "history: Process emits the message")
				present[j] = false
			}
			vxReach("process")
		case 3:
			t := vxTime()
			err := a.Collect(t)
			if closed {
				vxAssert(errors.Is(err, ErrAgentClosed) && len(rec.list) == from, "history: Collect on a closed agent")
			} else {
				vxAssert(err == nil, "history: Collect succeeds")
				expected := 0
				for k := range ids {
					if present[k] && deadline[k].Before(t) {
						expected++
						vxAssert(vxEmittedSince(rec, from, ids[k], ErrTransactionTimeOut) == 1, "history: a due transaction gets exactly one timeout")
						present[k] = false
						vxReach("collect-timeout")
					}
				}
				vxAssert(len(rec.list) == from+expected, "history: Collect emits timeouts for exactly the due transactions")
			}
			vxReach("collect")
		default:
			err := a.Close()
			if closed {
				vxAssert(errors.Is(err, ErrAgentClosed) && len(rec.list) == from, "history: second Close")
			} else {
				expected := 0
				for k := range ids {
					if present[k] {
						expected++
						vxAssert(vxEmittedSince(rec, from, ids[k], ErrAgentClosed) == 1, "history: Close emits one closed event per remaining transaction")
						present[k] = false
					}
				}
				vxAssert(err == nil && len(rec.list) == from+expected, "history: Close emits nothing else")
				closed = true
			}
			vxReach("close")
		}
		for k := range ids {
			_, ok := a.transactions[ids[k]]
			vxAssert(ok == (present[k] && !closed), "history: the table holds exactly the registered transactions")
		}
	}
}
