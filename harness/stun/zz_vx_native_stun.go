package stun

import (
	"crypto/tls"
	"reflect"
)

// Native helpers that only make sense in package stun (not shared with the hmac harness package).

// vxTLSServerName: the ServerName of the TLS client configuration wrapped around the client's connection ("" if none).
func vxTLSServerName(c *Client) string {
	if c == nil {
		return ""
	}
	tc, ok := c.c.(*tls.Conn)
	if !ok {
		return ""
	}
	cfg := reflect.ValueOf(tc).Elem().FieldByName("config")
	if !cfg.IsValid() || cfg.IsNil() {
		return ""
	}
	return cfg.Elem().FieldByName("ServerName").String()
}
