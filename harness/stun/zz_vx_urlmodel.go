package stun

import (
	"errors"
	"net/url"
)

// Model of net/url.Parse and net/url.ParseQuery for the inputs ParseURI hands
// them, used by the symbolic run only (the engine redirects net/url.Parse and
// net/url.ParseQuery here; native replays run the real functions).  The real
// functions' SSA was tried first: paths through escape/unescape/strings.Builder
// exceeded the 60 s probe (DESIGN.md §4 C16).  The model is validated natively
// against the real functions on every string of a bounded alphabet
// (vcheck: url-model-validation); its domain restrictions are assumptions of
// C16/C17 and are listed in their evidence:
//   - the URL starts with an ASCII-letter scheme followed by ':' (ParseURI's
//     callers in the harness always pass "<scheme>:" + s),
//   - bytes are ASCII,
//   - outcomes that the model leaves open ("either an error or this value") are
//     explored both ways.

var errVxURL = errors.New("vx: url parse error")

func vxCutByte(s string, c byte) (before, after string, found bool) {
	for i := 0; i < len(s); i++ {
		if s[i] == c {
			return s[:i], s[i+1:], true
		}
	}
	return s, "", false
}

func vxHasByte(s string, c byte) bool {
	for i := 0; i < len(s); i++ {
		if s[i] == c {
			return true
		}
	}
	return false
}

func vxIsHex(c byte) bool {
	return ('0' <= c && c <= '9') || ('a' <= c && c <= 'f') || ('A' <= c && c <= 'F')
}

// vxBadEscape: does s contain a '%' that is not followed by two hex digits?
func vxBadEscape(s string) bool {
	for i := 0; i < len(s); i++ {
		if s[i] == '%' {
			if i+2 >= len(s) || !vxIsHex(s[i+1]) || !vxIsHex(s[i+2]) {
				return true
			}
		}
	}
	return false
}

// vxModelURLParse models url.Parse(raw) for raw = "<letters>:" + rest.
func vxModelURLParse(raw string) (*url.URL, error) {
	u, frag, _ := vxCutByte(raw, '#')
	for i := 0; i < len(u); i++ {
		if u[i] < ' ' || u[i] == 0x7f {
			return nil, errVxURL // invalid control character in URL
		}
	}
	// scheme: leading ASCII letters up to the first ':' (the harness guarantees this shape)
	i := 0
	for i < len(u) && u[i] != ':' {
		c := u[i]
		isLetter := ('a' <= c && c <= 'z') || ('A' <= c && c <= 'Z')
		if !isLetter {
			vxAssume(false) // outside the model's domain
		}
		i++
	}
	if i == 0 || i == len(u) {
		vxAssume(false) // outside the model's domain
	}
	res := new(url.URL)
	res.Scheme = u[:i] // harness schemes are lower case
	rest := u[i+1:]
	nq := 0
	for j := 0; j < len(rest); j++ {
		if rest[j] == '?' {
			nq++
		}
	}
	if len(rest) > 0 && rest[len(rest)-1] == '?' && nq == 1 {
		res.ForceQuery = true
		rest = rest[:len(rest)-1]
	} else {
		rest, res.RawQuery, _ = vxCutByte(rest, '?')
	}
	if len(rest) > 0 && rest[0] == '/' {
		// hierarchical form: authority / path parsing may fail or succeed; in both cases Opaque is empty
		if vxBool() {
			return nil, errVxURL
		}
		res.Path = rest
		return res, nil
	}
	res.Opaque = rest
	if frag != "" {
		// setFragment fails on malformed %-escapes (unescape in fragment mode: every '%' must be
		// followed by two hex digits; nothing else is rejected); otherwise the fragment is stored
		if vxBadEscape(frag) {
			return nil, errVxURL
		}
		res.Fragment = frag
	}
	return res, nil
}

// vxModelParseQuery models url.ParseQuery(query) for queries without '%' and '+'
// (QueryUnescape is then the identity).
func vxModelParseQuery(query string) (url.Values, error) {
	m := make(url.Values)
	var err error
	for i := 0; i < len(query); i++ {
		if query[i] == '%' || query[i] == '+' {
			vxAssume(false) // outside the model's domain
		}
	}
	lim := len(query) + 1
	for n := 0; query != "" && n <= lim; n++ {
		var key string
		key, query, _ = vxCutByte(query, '&')
		if vxHasByte(key, ';') {
			err = errVxURL // invalid semicolon separator in query
			continue
		}
		if key == "" {
			continue
		}
		key, value, _ := vxCutByte(key, '=')
		m[key] = append(m[key], value)
	}
	return m, err
}
