package stun

import (
	"errors"
	"io"
	"net"
)

// C07 — getters and checkers are total, local and side-effect free.
//
// Locality is decided against a canonical twin: the getter's outcome on an
// arbitrary decodable message must equal its outcome on a minimal message
// that carries only a copy of the attribute's value (zero padding, nothing
// else) under the same transaction ID.  Two arbitrary messages sharing the
// value then agree by transitivity.

func vxDecoded(k int) (*Message, []byte, bool) {
	vxUnwind(k, true)
	raw := vxRawBuf()
	m := &Message{Raw: raw}
	if m.Decode() != nil {
		return nil, nil, false
	}
	vxUnwind(vxLoopBound, false)
	return m, raw, true
}

// vxTwin: a second, independent decodable message whose only attribute has
// type t and a value equal to val (same length, same bytes) and which has the
// same transaction ID as m; padding, trailing bytes, capacity and the other
// header fields are arbitrary and independent of m.
func vxTwin(m *Message, t AttrType, val []byte) (*Message, bool) {
	vxUnwind(1, true)
	raw := vxRawBuf()
	for i := 0; i < TransactionIDSize; i++ {
		vxAssume(vxAt(raw, 8+i) == m.TransactionID[i])
	}
	b := &Message{Raw: raw}
	if b.Decode() != nil {
		return nil, false
	}
	vxUnwind(vxLoopBound, false)
	if len(b.Attributes) != 1 {
		return nil, false
	}
	vxAssume(b.Attributes[0].Type == t)
	vxAssume(len(b.Attributes[0].Value) == len(val))
	copy(b.Attributes[0].Value, val) // value bytes are never read by the framing code
	return b, true
}

// vxPrevIPq: destination IP shapes (3 in the quick tier, 5 in the thorough tier).
func vxPrevIPq() net.IP {
	if vxThorough() {
		return vxPrevIP()
	}
	switch vxChoose(3) {
	case 0:
		return nil
	case 1:
		return net.IP(vxBytes(16, 16))
	default:
		return net.IP(vxBytes(2, 3))
	}
}

// vxErrClass: outcome class of a getter, independent of the build tag.
func vxErrClass(err error) int {
	var de *DecodeErr
	switch {
	case err == nil:
		return 0
	case errors.Is(err, ErrAttributeNotFound):
		return 1
	case errors.Is(err, io.ErrUnexpectedEOF):
		return 2
	case IsAttrSizeInvalid(err):
		return 3
	case IsAttrSizeOverflow(err):
		return 4
	case errors.Is(err, ErrBadUnknownAttrsSize):
		return 5
	case errors.As(err, &de):
		return 6
	}
	return 7
}

// vxTarget picks the attribute type under test: the fixed type of the getter
// or, for the *As variants, any type.
func vxPickPosition(m *Message, t AttrType) {
	if len(m.Attributes) > 0 && m.Attributes[0].Type == t {
		vxReach("target-first")
	}
	if n := len(m.Attributes); n > 1 && m.Attributes[n-1].Type == t && m.Attributes[0].Type != t {
		vxReach("target-last")
	}
}

func vh_C07_xoraddr() {
	m, _, ok := vxDecoded(vxK(2, 3))
	if !ok {
		return
	}
	t := AttrType(vxU16())
	snap := vxSnapshot(m)
	g1 := XORMappedAddress{IP: vxPrevIPq(), Port: vxInt()}
	e1 := g1.GetFromAs(m, t)
	vxUnchanged(m, snap, "XORMappedAddress getter")
	val, gerr := m.Get(t)
	if gerr != nil {
		vxReach("absent")
		vxAssert(vxErrClass(e1) == 1, "absent attribute is reported as not found")
		return
	}
	vxPickPosition(m, t)
	if len(val) < 2 {
		vxReach("short-value")
	}
	b, ok := vxTwin(m, t, val)
	if !ok {
		return
	}
	var g2 XORMappedAddress
	e2 := g2.GetFromAs(b, t)
	vxAssert(vxErrClass(e1) == vxErrClass(e2), "outcome class depends only on the attribute's own value")
	if e1 == nil && e2 == nil {
		vxReach("success")
		vxAssert(g1.Port == g2.Port, "decoded port depends only on the value")
		vxAssert(len(g1.IP) == len(g2.IP), "decoded address length depends only on the value")
		for i := 0; i < len(g1.IP) && i < len(g2.IP); i++ {
			vxAssert(g1.IP[i] == g2.IP[i], "decoded address depends only on the value and transaction ID")
		}
	}
}

// GetFrom is GetFromAs(XOR-MAPPED-ADDRESS).
func vh_C07_xoraddr_getfrom() {
	m, _, ok := vxDecoded(1)
	if !ok {
		return
	}
	var g1, g2 XORMappedAddress
	e1 := g1.GetFrom(m)
	e2 := g2.GetFromAs(m, AttrXORMappedAddress)
	vxAssert(vxErrClass(e1) == vxErrClass(e2), "GetFrom is GetFromAs(XOR-MAPPED-ADDRESS)")
	if e1 == nil && e2 == nil {
		vxReach("success")
		vxAssert(g1.Port == g2.Port && len(g1.IP) == len(g2.IP), "GetFrom and GetFromAs agree")
	}
}

func vh_C07_mappedaddr() {
	m, _, ok := vxDecoded(vxK(2, 3))
	if !ok {
		return
	}
	t := AttrType(vxU16())
	snap := vxSnapshot(m)
	g1 := MappedAddress{IP: vxPrevIPq(), Port: vxInt()}
	e1 := g1.GetFromAs(m, t)
	vxUnchanged(m, snap, "MappedAddress getter")
	val, gerr := m.Get(t)
	if gerr != nil {
		vxReach("absent")
		vxAssert(vxErrClass(e1) == 1, "absent attribute is reported as not found")
		return
	}
	vxPickPosition(m, t)
	m0, ok := vxTwin(m, t, val)
	if !ok {
		return
	}
	var g2 MappedAddress
	e2 := g2.GetFromAs(m0, t)
	vxAssert(vxErrClass(e1) == vxErrClass(e2), "outcome class depends only on the attribute's own value")
	if e1 == nil && e2 == nil {
		vxReach("success")
		vxAssert(g1.Port == g2.Port, "decoded port depends only on the value")
		vxAssert(len(g1.IP) == len(g2.IP), "decoded address length depends only on the value")
		for i := 0; i < len(g1.IP) && i < len(g2.IP); i++ {
			vxAssert(g1.IP[i] == g2.IP[i], "decoded address depends only on the value")
		}
	}
}

// The fixed-type getters are GetFromAs with their RFC attribute type.
func vh_C07_mappedaddr_wrappers() {
	m, _, ok := vxDecoded(1)
	if !ok {
		return
	}
	which := vxChoose(4)
	t := [4]AttrType{AttrMappedAddress, AttrAlternateServer, AttrResponseOrigin, AttrOtherAddress}[which]
	snap := vxSnapshot(m)
	var e1 error
	var ip1 net.IP
	var port1 int
	switch which {
	case 0:
		var g MappedAddress
		e1 = g.GetFrom(m)
		ip1, port1 = g.IP, g.Port
	case 1:
		var g AlternateServer
		e1 = g.GetFrom(m)
		ip1, port1 = g.IP, g.Port
	case 2:
		var g ResponseOrigin
		e1 = g.GetFrom(m)
		ip1, port1 = g.IP, g.Port
	default:
		var g OtherAddress
		e1 = g.GetFrom(m)
		ip1, port1 = g.IP, g.Port
	}
	vxUnchanged(m, snap, "address getter")
	var g2 MappedAddress
	e2 := g2.GetFromAs(m, t)
	vxAssert(vxErrClass(e1) == vxErrClass(e2), "fixed-type getter is GetFromAs(its RFC type)")
	if e1 == nil && e2 == nil {
		vxReach("success")
		vxAssert(port1 == g2.Port && len(ip1) == len(g2.IP), "fixed-type getter and GetFromAs agree")
		for i := 0; i < len(ip1) && i < len(g2.IP); i++ {
			vxAssert(ip1[i] == g2.IP[i], "fixed-type getter and GetFromAs agree on the address")
		}
	}
}

func vh_C07_errorcode() {
	m, _, ok := vxDecoded(vxK(2, 3))
	if !ok {
		return
	}
	snap := vxSnapshot(m)
	g1 := ErrorCodeAttribute{Code: ErrorCode(vxInt())}
	e1 := g1.GetFrom(m)
	vxUnchanged(m, snap, "ErrorCodeAttribute getter")
	val, gerr := m.Get(AttrErrorCode)
	if gerr != nil {
		vxReach("absent")
		vxAssert(vxErrClass(e1) == 1, "absent attribute is reported as not found")
		return
	}
	vxPickPosition(m, AttrErrorCode)
	m0, ok := vxTwin(m, AttrErrorCode, val)
	if !ok {
		return
	}
	var g2 ErrorCodeAttribute
	e2 := g2.GetFrom(m0)
	vxAssert(vxErrClass(e1) == vxErrClass(e2), "outcome class depends only on the attribute's own value")
	if e1 == nil && e2 == nil {
		vxReach("success")
		vxAssert(g1.Code == g2.Code, "decoded code depends only on the value")
		vxAssert(len(g1.Reason) == len(g2.Reason), "decoded reason length depends only on the value")
		if w := vxWitness(len(g1.Reason)); w < len(g1.Reason) && w < len(g2.Reason) {
			vxAssert(g1.Reason[w] == g2.Reason[w], "decoded reason depends only on the value")
		}
	}
}

func vh_C07_text() {
	m, raw, ok := vxDecoded(vxK(2, 3))
	if !ok {
		return
	}
	which := vxChoose(5)
	t := [5]AttrType{AttrUsername, AttrRealm, AttrNonce, AttrSoftware, 0}[which]
	if which == 4 {
		t = AttrType(vxU16())
	}
	snap := vxSnapshot(m)
	var e1 error
	var got []byte
	switch which {
	case 0:
		var g Username
		e1 = g.GetFrom(m)
		got = g
	case 1:
		var g Realm
		e1 = g.GetFrom(m)
		got = g
	case 2:
		var g Nonce
		e1 = g.GetFrom(m)
		got = g
	case 3:
		var g Software
		e1 = g.GetFrom(m)
		got = g
	default:
		var g TextAttribute
		e1 = g.GetFromAs(m, t)
		got = g
	}
	vxUnchanged(m, snap, "text getter")
	val, gerr := m.Get(t)
	if gerr != nil {
		vxReach("absent")
		vxAssert(vxErrClass(e1) == 1, "absent attribute is reported as not found")
		return
	}
	vxPickPosition(m, t)
	vxReach("success")
	vxAssert(e1 == nil, "a present text attribute of any length is returned")
	vxAssert(len(got) == len(val), "text is exactly the attribute's value (length)")
	vxAssert(len(got) == 0 || vxOffsetIn(got, raw) == vxOffsetIn(val, raw), "text is exactly the attribute's value (bytes)")
}

func vh_C07_unknownattrs() {
	m, _, ok := vxDecoded(vxK(2, 2))
	if !ok {
		return
	}
	snap := vxSnapshot(m)
	var g1 UnknownAttributes
	if vxChoose(2) == 1 {
		g1 = make(UnknownAttributes, 2, 3)
	}
	vxUnwind(vxK(4, 8), true) // at most 4 (8) list entries are followed
	e1 := g1.GetFrom(m)
	vxUnwind(vxLoopBound, false)
	vxUnchanged(m, snap, "UnknownAttributes getter")
	val, gerr := m.Get(AttrUnknownAttributes)
	if gerr != nil {
		vxReach("absent")
		vxAssert(vxErrClass(e1) == 1, "absent attribute is reported as not found")
		return
	}
	vxPickPosition(m, AttrUnknownAttributes)
	if len(val)%2 != 0 {
		vxReach("odd-length")
		vxAssert(vxErrClass(e1) == 5, "a value that is not a list of 16-bit entries is rejected")
		return
	}
	vxReach("success")
	vxAssert(e1 == nil, "a list of 16-bit entries is accepted")
	vxAssert(len(g1) == len(val)/2, "one entry per 16 bits of the value")
	for i := 0; i < len(g1) && 2*i+1 < len(val); i++ {
		vxAssert(uint16(g1[i]) == uint16(val[2*i])<<8|uint16(val[2*i+1]), "entries depend only on the value")
	}
}

func vh_C07_selftest() {
	m, _, ok := vxDecoded(1)
	if !ok {
		return
	}
	var g MappedAddress
	vxAssert(g.GetFrom(m) != nil, "selftest: deliberately false")
}
