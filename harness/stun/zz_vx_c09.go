package stun

import (
	"errors"
	"net"
)

// C09 — setters reject unrepresentable values and fail atomically.

// vxBuiltState: an arbitrary message state as the building API leaves it:
// a successfully decoded canonical buffer (len(Raw) == 20+Length) with at most
// k attributes, arbitrary spare capacity and arbitrary bytes beyond len.
func vxBuiltState(k int) (*Message, bool) {
	vxUnwind(k, true)
	raw := vxRawBuf()
	m := &Message{Raw: raw}
	if m.Decode() != nil {
		return nil, false
	}
	vxUnwind(vxLoopBound, false) // from here on loops are checked, not cut
	vxAssume(len(raw) == messageHeaderSize+int(m.Length))
	vxAssume(raw[0]>>6 == 0) // built messages carry zero in the two leading type bits
	vxAssume(int(m.Length)%4 == 0)
	return m, true
}

// vxLoopBound: unwinding bound for code after the pre-state has been built; exceeding it is reported (UNWIND-INSUFFICIENT), never assumed away.
const vxLoopBound = 80

type vxSnap struct {
	raw    []byte
	rawObj []byte
	length uint32
	typ    MessageType
	tid    [TransactionIDSize]byte
	attrs  Attributes
	nattr  int
	spare  int // cap(Raw) - len(Raw)
	first  RawAttribute
}

func vxSnapshot(m *Message) vxSnap {
	s := vxSnap{rawObj: m.Raw, spare: cap(m.Raw) - len(m.Raw), length: m.Length, typ: m.Type, tid: m.TransactionID, attrs: m.Attributes, nattr: len(m.Attributes)}
	s.raw = make([]byte, len(m.Raw))
	copy(s.raw, m.Raw)
	if len(m.Attributes) > 0 {
		s.first = m.Attributes[0]
	}
	return s
}

// vxUnchanged: raw bytes, length, header fields and attribute list exactly as in the snapshot.
func vxUnchanged(m *Message, s vxSnap, what string) { vxUnchangedOrMoved(m, s, what, 0) }

// vxUnchangedOrMoved: as vxUnchanged, except that an operation that needs `room` scratch bytes behind
// Raw (MessageIntegrity.Check: 20) may move Raw to a larger buffer of equal content when the spare
// capacity was smaller than that; with enough room the buffer must stay where it is.
func vxUnchangedOrMoved(m *Message, s vxSnap, what string, room int) {
	vxAssert(len(m.Raw) == len(s.raw), what+": len(Raw) unchanged")
	if s.spare >= room {
		vxAssert(vxSameObject(m.Raw, s.rawObj) || len(s.raw) == 0, what+": Raw is still the same buffer")
	} else {
		vxAssert(vxSameObject(m.Raw, s.rawObj) || cap(m.Raw)-len(m.Raw) >= room, what+": Raw is the same buffer or was moved to one with the room the operation needs")
	}
	w := vxWitness(len(s.raw)) // w == len is harmless: vxAt yields 0 on both sides
	vxAssert(vxAt(m.Raw, w) == vxAt(s.raw, w), what+": raw bytes unchanged")
	vxAssert(m.Length == s.length, what+": Length unchanged")
	vxAssert(m.Type == s.typ, what+": Type unchanged")
	vxAssert(m.TransactionID == s.tid, what+": TransactionID unchanged")
	vxAssert(vxSameAttrHeader(m.Attributes, s.attrs), what+": attribute list unchanged")
	if s.nattr > 0 && len(m.Attributes) > 0 {
		a := m.Attributes[0]
		vxAssert(a.Type == s.first.Type && a.Length == s.first.Length && len(a.Value) == len(s.first.Value), what+": first attribute unchanged")
	}
}

func vh_C09_text() {
	m, ok := vxBuiltState(vxK(1, 2))
	if !ok {
		return
	}
	which := vxChoose(5)
	limit := [5]int{513, 763, 763, 763, 763}[which]
	n := vxLen(limit + 300)
	val := vxBytes(n, n)
	snap := vxSnapshot(m)
	var err error
	switch which {
	case 0:
		err = Username(val).AddTo(m)
	case 1:
		err = Realm(val).AddTo(m)
	case 2:
		err = Nonce(val).AddTo(m)
	case 3:
		err = Software(val).AddTo(m)
	default:
		err = ErrorCodeAttribute{Code: CodeBadRequest, Reason: val}.AddTo(m)
	}
	if n <= limit {
		vxReach("within-limit")
		if n == limit {
			vxReach("at-limit")
		}
		vxAssert(err == nil, "text within the limit is accepted")
		return
	}
	vxReach("over-limit")
	if n == limit+1 {
		vxReach("limit-plus-one")
	}
	vxAssert(err != nil, "text longer than the limit is rejected")
	vxAssert(IsAttrSizeOverflow(err), "the error is an attribute size overflow")
	vxUnchanged(m, snap, "after rejected text")
}

func vh_C09_ip() {
	m, ok := vxBuiltState(vxK(1, 2))
	if !ok {
		return
	}
	n := vxChoose(21) // IP length 0..20
	ip := net.IP(vxBytes(n, n))
	port := vxInt()
	snap := vxSnapshot(m)
	var err error
	switch vxChoose(6) {
	case 0:
		err = XORMappedAddress{IP: ip, Port: port}.AddTo(m)
	case 1:
		err = XORMappedAddress{IP: ip, Port: port}.AddToAs(m, AttrType(vxU16()))
	case 2:
		err = (&MappedAddress{IP: ip, Port: port}).AddTo(m)
	case 3:
		err = (&AlternateServer{IP: ip, Port: port}).AddTo(m)
	case 4:
		err = (&ResponseOrigin{IP: ip, Port: port}).AddTo(m)
	default:
		err = (&OtherAddress{IP: ip, Port: port}).AddTo(m)
	}
	if n == 4 || n == 16 {
		vxReach("valid-ip")
		vxAssert(err == nil, "a 4- or 16-byte IP is accepted")
		return
	}
	vxReach("bad-ip")
	vxAssert(err != nil, "an IP that is neither 4 nor 16 bytes is rejected")
	vxAssert(errors.Is(err, ErrBadIPLength), "the error is ErrBadIPLength")
	vxUnchanged(m, snap, "after rejected IP")
}

// refHasDefaultReason: the exported Code* constants of errorcode.go.
func refHasDefaultReason(c int) bool {
	switch c {
	case 300, 400, 401, 420, 438, 487, 500, 403, 437, 441, 442, 486, 508, 446, 447, 440, 443:
		return true
	}
	return false
}

func vh_C09_errorcode() {
	m, ok := vxBuiltState(vxK(1, 1))
	if !ok {
		return
	}
	code := vxLen(999)
	snap := vxSnapshot(m)
	err := ErrorCode(code).AddTo(m)
	if refHasDefaultReason(code) {
		vxReach("has-reason")
		vxAssert(err == nil, "a code with a default reason is accepted")
		return
	}
	vxReach("no-reason")
	vxAssert(err != nil, "a code without default reason is rejected")
	vxAssert(errors.Is(err, ErrNoDefaultReason), "the error is ErrNoDefaultReason")
	vxUnchanged(m, snap, "after rejected error code")
}

// MESSAGE-INTEGRITY after FINGERPRINT is refused, message untouched.
func vh_C09_integrity_after_fingerprint() {
	m, ok := vxBuiltState(vxK(2, 3))
	if !ok {
		return
	}
	has := false
	for _, a := range m.Attributes {
		if a.Type == AttrFingerprint {
			has = true
		}
	}
	if !has {
		return
	}
	vxReach("has-fingerprint")
	snap := vxSnapshot(m)
	key := vxBytes(5, 5)
	err := MessageIntegrity(key).AddTo(m)
	vxAssert(err != nil, "integrity after FINGERPRINT is refused")
	vxAssert(errors.Is(err, ErrFingerprintBeforeIntegrity), "the error is ErrFingerprintBeforeIntegrity")
	vxUnchanged(m, snap, "after refused integrity")
}

type vxFlagSetter struct{ ran *int }

func (s vxFlagSetter) AddTo(m *Message) error {
	*s.ran++
	return nil
}

// Build stops at and returns the first failing setter's error.
func vh_C09_build() {
	var ran1, ran3 int
	n := vxLen(763 + 300)
	val := vxBytes(n, n)
	m := new(Message)
	if vxChoose(2) == 1 {
		m.Raw = vxPrevRaw()
	}
	pos := vxChoose(3) // position of the possibly failing setter
	s1, s3 := vxFlagSetter{&ran1}, vxFlagSetter{&ran3}
	var err error
	switch pos {
	case 0:
		err = m.Build(Realm(val), s1, s3)
	case 1:
		err = m.Build(s1, Realm(val), s3)
	default:
		err = m.Build(s1, s3, Realm(val))
	}
	if n <= 763 {
		vxAssert(err == nil, "Build succeeds when every setter succeeds")
		vxAssert(ran1 == 1 && ran3 == 1, "every setter ran exactly once")
		vxAssert(len(m.Attributes) == 1, "the attribute was added")
		return
	}
	vxReach("failing-setter")
	vxAssert(err != nil, "Build returns the failing setter's error")
	vxAssert(IsAttrSizeOverflow(err), "Build returns the first failing setter's error (overflow)")
	switch pos {
	case 0:
		vxAssert(ran1 == 0 && ran3 == 0, "no setter runs after the failing one")
	case 1:
		vxAssert(ran1 == 1 && ran3 == 0, "setters before ran, setters after did not")
	default:
		vxAssert(ran1 == 1 && ran3 == 1, "setters before the failing one ran")
	}
	vxAssert(len(m.Attributes) == 0, "the failing setter added nothing")
}

func vh_C09_selftest() {
	m, ok := vxBuiltState(1)
	if !ok {
		return
	}
	n := vxLen(800)
	err := Realm(vxBytes(n, n)).AddTo(m)
	vxAssert(err == nil, "selftest: deliberately false")
}
