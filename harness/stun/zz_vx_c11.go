package stun

import (
	"errors"
	"time"
)

// C11 — retransmissions are bit-identical, bounded and on schedule.

// one retransmission step from a state with one in-flight transaction
func vh_C11_step() {
	maxA := int32(vxChoose(9)) // attempt limit 0..8
	env := vxNewClient()
	env.c.maxAttempts = maxA
	rto := vxLen(1 << 40)
	vxAssume(rto > 0)
	env.c.SetRTO(time.Duration(rto))
	id := vxID()
	msg := vxRequest(id, 65535)
	want := make([]byte, len(msg.Raw))
	copy(want, msg.Raw)
	rec := &vxCalls{}
	vxAssert(env.c.Start(msg, rec.handle) == nil, "Start succeeds")
	vxAssert(len(env.conn.writes) == 1, "Start writes the request once")
	vxSameBytes(env.conn.writes[0], want, "the first transmission is the message")
	// caller reuses the message buffer afterwards
	if len(msg.Raw) > 0 {
		msg.Raw[0] ^= 0xff
	}
	tr := env.c.t[id]
	vxAssert(tr != nil, "the transaction is registered")
	attempt := int32(vxChoose(9))
	tr.attempt = attempt // arbitrary number of retransmissions already done
	if vxChoose(2) == 1 {
		// SetRTO while the transaction is in flight must not change its schedule
		other := vxLen(1 << 40)
		vxAssume(other > 0)
		env.c.SetRTO(time.Duration(other))
		vxReach("setrto-in-flight")
	}
	at, ok := env.c.a.(*Agent).transactions[id]
	vxAssert(ok, "the agent tracks the transaction")
	// a timeout event for this transaction at virtual time now2 (strictly after its deadline)
	now2 := vxTime()
	vxAssume(at.deadline.Before(now2))
	env.tick(now2)
	if attempt >= maxA {
		vxReach("final-timeout")
		vxAssert(len(env.conn.writes) == 1, "nothing is written after the last allowed retransmission")
		vxAssert(len(rec.events) == 1 && errors.Is(rec.events[0].Error, ErrTransactionTimeOut), "the timeout is reported once")
		vxAssert(env.c.t[id] == nil, "the transaction is gone")
		return
	}
	vxReach("retransmit")
	if len(want) > 2048 {
		vxReach("larger-than-scratch-buffer")
	}
	vxAssert(len(rec.events) == 0, "no handler call on a retransmission")
	vxAssert(len(env.conn.writes) == 2, "exactly one retransmission is written")
	vxSameBytes(env.conn.writes[1], want, "the retransmission is byte for byte the message as it was at Start")
	tr2 := env.c.t[id]
	vxAssert(tr2 != nil && tr2.attempt == attempt+1, "the transaction is re-registered with the attempt counted")
	at2, ok2 := env.c.a.(*Agent).transactions[id]
	vxAssert(ok2, "the agent tracks the retransmitted transaction")
	wantDeadline := now2.Add(time.Duration(int64(attempt+2)) * time.Duration(rto))
	vxAssert(at2.deadline.Equal(wantDeadline), "the next deadline is now + (k+1)*rto")
}

// histories: Start followed by clock advances; at most n+1 writes, strict deadlines, silence after the end
func vh_C11_history() {
	n := vxChoose(vxK(3, 5)) // retransmission limit 0..2 (0..4)
	var env *vxClientEnv
	if n == 0 && vxChoose(2) == 1 {
		env = vxNewClient(WithNoRetransmit)
		vxReach("no-retransmit-option")
	} else {
		env = vxNewClient()
		env.c.maxAttempts = int32(n)
	}
	rto := vxLen(1 << 30)
	vxAssume(rto > 0)
	env.c.SetRTO(time.Duration(rto))
	id := vxID()
	msg := vxRequest(id, 64)
	rec := &vxCalls{}
	start := env.clock.now
	vxAssert(env.c.Start(msg, rec.handle) == nil, "Start succeeds")
	deadline := start.Add(time.Duration(rto)) // first deadline: start + 1*rto
	writes := 1
	for k := 0; k <= n+1; k++ {
		// advance the clock to just before / at / after the current deadline
		t := vxTime()
		vxAssume(!t.Before(env.clock.now))
		env.tick(t)
		ended := len(rec.events) > 0
		if !t.After(deadline) {
			vxReach("not-yet-due")
			vxAssert(len(env.conn.writes) == writes && !ended, "nothing happens until the clock has passed the deadline")
			continue
		}
		if writes <= n {
			vxReach("retransmitted")
			writes++
			vxAssert(len(env.conn.writes) == writes && !ended, "one retransmission once the deadline has passed")
			vxSameBytes(env.conn.writes[writes-1], env.conn.writes[0], "every transmission carries the same bytes")
			deadline = t.Add(time.Duration(int64(writes)) * time.Duration(rto))
		} else {
			vxReach("timed-out")
			vxAssert(len(env.conn.writes) == writes, "no write after the last retransmission")
			vxAssert(len(rec.events) == 1 && errors.Is(rec.events[0].Error, ErrTransactionTimeOut), "timeout reported after the (n+1)-th deadline")
			// nothing more, ever
			t2 := vxTime()
			vxAssume(!t2.Before(t))
			env.tick(t2)
			vxAssert(len(env.conn.writes) == writes && len(rec.events) == 1, "nothing is written or reported for an ended transaction")
			return
		}
	}
	vxAssert(len(env.conn.writes) <= n+1, "at most n+1 transmissions")
}

// a response ends the transaction: no further writes; SetRTO affects only later transactions
func vh_C11_response_and_rto() {
	env := vxNewClient()
	env.c.maxAttempts = 2
	rto1, rto2 := vxLen(1<<30), vxLen(1<<30)
	vxAssume(rto1 > 0 && rto2 > 0)
	env.c.SetRTO(time.Duration(rto1))
	id1, id2 := vxID(), vxID()
	vxAssume(id1 != id2)
	rec1, rec2 := &vxCalls{}, &vxCalls{}
	t0 := env.clock.now
	vxAssert(env.c.Start(vxRequest(id1, 40), rec1.handle) == nil, "first Start succeeds")
	env.c.SetRTO(time.Duration(rto2)) // must not affect the first transaction
	vxAssert(env.c.Start(vxRequest(id2, 40), rec2.handle) == nil, "second Start succeeds")
	d1 := env.c.a.(*Agent).transactions[id1].deadline
	d2 := env.c.a.(*Agent).transactions[id2].deadline
	vxAssert(d1.Equal(t0.Add(time.Duration(rto1))), "first deadline uses the RTO in force at its Start")
	vxAssert(d2.Equal(t0.Add(time.Duration(rto2))), "second deadline uses the new RTO")
	vxAssert(env.c.t[id1].rto == time.Duration(rto1), "SetRTO does not change a transaction already started")
	// response for the first: handler once, nothing written any more for it
	resp := &Message{TransactionID: id1}
	vxAssert(env.deliver(resp) == nil, "response delivered")
	vxAssert(len(rec1.events) == 1 && rec1.events[0].Message == resp && rec1.events[0].Error == nil, "the response reaches the handler once")
	w := len(env.conn.writes)
	late := vxTime()
	vxAssume(d1.Before(late) && !d2.Before(late)) // the first would be due, the second is not
	env.tick(late)
	vxAssert(len(env.conn.writes) == w, "nothing is retransmitted for a transaction that got its response")
	vxAssert(len(rec1.events) == 1, "no second handler call")
	vxReach("done")
}

// a failing retransmission ends the transaction: the error is reported once and nothing more is written
func vh_C11_write_error() {
	env := vxNewClient()
	env.c.maxAttempts = int32(1 + vxChoose(3))
	env.c.SetRTO(100)
	id := vxID()
	rec := &vxCalls{}
	vxAssert(env.c.Start(vxRequest(id, 40), rec.handle) == nil, "Start succeeds")
	env.conn.failNext = true
	env.tick(env.clock.now.Add(1000)) // deadline passed: the retransmission's write fails
	vxAssert(len(rec.events) == 1 && errors.Is(rec.events[0].Error, errVxWrite), "the write error of the failed retransmission is reported once")
	vxAssert(len(env.conn.writes) == 1, "the failed retransmission is the last attempt to write for this transaction")
	env.tick(env.clock.now.Add(100000))
	vxAssert(len(env.conn.writes) == 1 && len(rec.events) == 1, "nothing is written or reported after the transaction ended with an error")
	vxAssert(env.c.t[id] == nil, "the transaction is gone")
	vxReach("done")
}

func vh_C11_selftest() {
	env := vxNewClient()
	id := vxID()
	rec := &vxCalls{}
	vxAssert(env.c.Start(vxRequest(id, 40), rec.handle) == nil, "Start succeeds")
	vxAssert(len(env.conn.writes) == 0, "selftest: deliberately false")
}
