package stun

// C01 — decoding arbitrary bytes is total and memory-safe.

const vxMaxMsg = 65535 + 20 + 64

// vxRawBuf: a buffer of arbitrary content, length 0..65535+20+64 and capacity
// slack 0..64 (0 = the capacity ends exactly at the end of the data).
func vxRawBuf() []byte {
	n := vxLen(vxMaxMsg)
	c := n + vxLen(64)
	return vxBytes(n, c)
}

// vxCheckViews asserts the success post-condition of C01 on a decoded message.
func vxCheckViews(m *Message, raw []byte) {
	vxAssert(IsMessage(raw), "IsMessage is true for every input that decodes")
	vxAssert(len(raw) >= messageHeaderSize, "accepted input has a header")
	size := int(raw[2])<<8 | int(raw[3])
	vxAssert(len(raw) >= messageHeaderSize+size, "accepted input holds the declared body")
	vxAssert(int(m.Length) == size, "Length is the declared body length")
	vxAssert(len(m.Attributes)*4 <= size, "attribute count bounded by body length / 4")
	end := messageHeaderSize // end of the previous padded value
	for i := range m.Attributes {
		a := m.Attributes[i]
		vxAssert(vxSameObject(a.Value, raw), "value is a view of the message's own buffer")
		off := vxOffsetIn(a.Value, raw)
		vxAssert(off == end+attributeHeaderSize, "value starts right after its TLV header, in wire order")
		vxAssert(len(a.Value) == int(a.Length), "view length is the declared attribute length")
		vxAssert(int(a.Length) == int(raw[end+2])<<8|int(raw[end+3]), "declared length is the one on the wire")
		vxAssert(off+len(a.Value) <= messageHeaderSize+size, "value ends inside the declared body")
		end = off + (len(a.Value)+3)&^3
		vxAssert(end <= messageHeaderSize+size, "padded value ends inside the declared body")
	}
	vxAssert(end == messageHeaderSize+size, "attributes tile the declared body exactly")
}

// vxStaleMessage: a Message as left behind by any earlier use.
func vxStaleMessage() *Message {
	m := new(Message)
	m.Type = MessageType{Method: Method(vxU16()), Class: MessageClass(vxU8())}
	m.Length = vxU32()
	m.TransactionID = vxID()
	switch vxChoose(3) {
	case 0: // nil attribute list
	case 1:
		m.Attributes = make(Attributes, 0, 1)
	case 2:
		// one stale entry pointing into foreign memory
		m.Attributes = Attributes{{Type: AttrType(vxU16()), Length: vxU16(), Value: vxBytes(3, 3)}}
	}
	return m
}

func vh_C01_decode() {
	vxUnwind(2, true)
	raw := vxRawBuf()
	m := vxStaleMessage()
	m.Raw = raw
	err := m.Decode() // real code
	if err != nil {
		vxReach("reject")
		return
	}
	vxReach("accept")
	if len(m.Attributes) == 2 {
		vxReach("accept-2-attrs")
	}
	vxAssert(vxSameObject(m.Raw, raw), "Decode keeps Raw")
	vxCheckViews(m, raw)
}

func vh_C01_selftest() {
	vxUnwind(1, true)
	raw := vxRawBuf()
	m := &Message{Raw: raw}
	if m.Decode() == nil {
		vxAssert(len(m.Attributes) == 0, "selftest: deliberately false")
	}
}

// vxWitness: an arbitrary index 0 <= w <= n; callers guard uses with w < n, so
// that "for every index" is decided as unsatisfiability of "exists an index".
func vxWitness(n int) int {
	w := vxLen(1<<17 - 1)
	vxAssume(w <= n)
	return w
}

// vxPrevRaw: the Raw buffer left behind by an earlier use (nil, or any length/capacity/content).
func vxPrevRaw() []byte {
	if vxChoose(2) == 0 {
		return nil
	}
	c := vxLen(vxMaxMsg)
	n := vxLen(vxMaxMsg)
	vxAssume(n <= c)
	return vxBytes(n, c)
}

// The copying entry points: Decode(data, m), Write, UnmarshalBinary, GobDecode, CloneTo.
func vh_C01_copying() {
	vxUnwind(vxK(2, 3), true)
	data := vxRawBuf()
	m := new(Message)
	m.Raw = vxPrevRaw()
	var err error
	switch vxChoose(5) {
	case 0:
		err = Decode(data, m)
	case 1:
		var n int
		n, err = m.Write(data)
		vxAssert(n == len(data), "Write reports the whole input as consumed")
	case 2:
		err = m.UnmarshalBinary(data)
	case 3:
		err = m.GobDecode(data)
	case 4:
		src := &Message{Raw: data}
		err = src.CloneTo(m)
	}
	vxAssert(!vxSameObject(m.Raw, data), "Raw is a private copy, not the caller's buffer")
	vxAssert(len(m.Raw) == len(data), "Raw holds exactly the input")
	if w := vxWitness(len(data)); w < len(data) {
		vxAssert(m.Raw[w] == data[w], "Raw holds exactly the input bytes")
	}
	if err != nil {
		vxReach("reject")
		return
	}
	vxReach("accept")
	vxCheckViews(m, m.Raw)
}

type vxReader struct{ calls int }

// Read: the documented io.Reader contract only — 0 <= n <= len(p), any bytes, any error.
func (r *vxReader) Read(p []byte) (int, error) {
	r.calls++
	n := vxLen(len(p))
	copy(p, vxBytes(n, n))
	if vxBool() {
		return n, errVxCallback
	}
	return n, nil
}

func vh_C01_readfrom() {
	vxUnwind(vxK(2, 3), true)
	m := new(Message)
	m.Raw = vxPrevRaw()
	r := &vxReader{}
	n, err := m.ReadFrom(r)
	vxAssert(r.calls == 1, "ReadFrom reads once")
	if err != nil {
		vxReach("reject")
		return
	}
	vxReach("accept")
	vxAssert(int(n) == len(m.Raw), "ReadFrom reports the bytes read")
	vxCheckViews(m, m.Raw)
}
