package stun

// Independent RFC 5389 reference parser used as oracle (C02, C03, C04, C05,
// C07, C08).  It works on absolute offsets of the raw buffer, never
// re-slices, and shares no code with message.go.

const vxMaxAttrs = 6

type refAttr struct {
	typ uint16 // with the legacy alias 0x8020 mapped to 0x0020
	len int
	off int // absolute offset of the value in raw
}

type refMsg struct {
	ok     bool // RFC 5389 framing accepted
	over   bool // more than `max` attributes: outside the bound of this run
	method uint16
	class  uint8
	length int
	n      int
	attrs  [vxMaxAttrs]refAttr
}

func refBE16(raw []byte, i int) int {
	return int(vxAt(raw, i))<<8 | int(vxAt(raw, i+1))
}

func refBE32(raw []byte, i int) uint32 {
	return uint32(vxAt(raw, i))<<24 | uint32(vxAt(raw, i+1))<<16 | uint32(vxAt(raw, i+2))<<8 | uint32(vxAt(raw, i+3))
}

// refParse parses raw per RFC 5389 section 6 and 15 (framing only).
func refParse(raw []byte, max int) (r refMsg) {
	if len(raw) < 20 {
		return r
	}
	if refBE32(raw, 4) != 0x2112A442 {
		return r
	}
	L := refBE16(raw, 2)
	if len(raw) < 20+L {
		return r
	}
	tv := uint16(refBE16(raw, 0))
	r.method = refTypeMethod(tv)
	r.class = refTypeClass(tv)
	r.length = L
	o := 0
	for i := 0; i <= max; i++ {
		if o == L {
			r.ok = true
			return r
		}
		if i == max {
			r.over = true
			return r
		}
		if L-o < 4 {
			return r
		}
		t := uint16(refBE16(raw, 20+o))
		l := refBE16(raw, 20+o+2)
		p := (l + 3) &^ 3
		if L-o-4 < p {
			return r
		}
		if t == 0x8020 {
			t = 0x0020
		}
		r.attrs[i] = refAttr{typ: t, len: l, off: 20 + o + 4}
		r.n = i + 1
		o += 4 + p
	}
	return r
}

// vxK: attribute-count bound of the current tier.
func vxK(quick, thorough int) int {
	if vxThorough() {
		return thorough
	}
	return quick
}

// vxSameAttrHeader: two attribute lists are the same slice (object, offset, len, cap).
func vxSameAttrHeader(a, b Attributes) bool {
	if len(a) != len(b) || cap(a) != cap(b) {
		return false
	}
	if cap(a) == 0 {
		return (a == nil) == (b == nil)
	}
	return &a[:1][0] == &b[:1][0]
}

// vxMatchesRef: the decoded struct is exactly the reference parse of raw.
func vxMatchesRef(m *Message, raw []byte, r *refMsg) {
	vxAssert(uint16(m.Type.Method) == r.method, "method is the one encoded in the type field")
	vxAssert(uint8(m.Type.Class) == r.class, "class is the one encoded in the type field")
	vxAssert(int(m.Length) == r.length, "Length is the declared length")
	for i := 0; i < TransactionIDSize; i++ {
		vxAssert(m.TransactionID[i] == vxAt(raw, 8+i), "transaction ID is bytes 8..19")
	}
	vxAssert(len(m.Attributes) == r.n, "attribute count equals the reference parse")
	for i := 0; i < r.n && i < len(m.Attributes); i++ {
		a := m.Attributes[i]
		vxAssert(uint16(a.Type) == r.attrs[i].typ, "attribute type (0x8020 aliased) equals the reference parse")
		vxAssert(int(a.Length) == r.attrs[i].len, "attribute length equals the reference parse")
		vxAssert(len(a.Value) == r.attrs[i].len, "value length equals the declared length")
		vxAssert(vxSameObject(a.Value, raw), "value is a view of the decoded buffer")
		vxAssert(vxOffsetIn(a.Value, raw) == r.attrs[i].off, "value bytes are those at the reference offset")
	}
}
