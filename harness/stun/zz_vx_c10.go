package stun

import (
	"errors"
	"sync"
	"time"
)

// C10 — every started client transaction completes exactly once.
// Sequential event model: the reader's delivery, the collector's tick, a failing
// write and Close are events executed between the client's own calls; for Do,
// events run while Do waits (sync.Cond.Wait yields to the pending events).

type vxTx struct {
	id      transactionID
	rec     *vxCalls
	started int // 0 = not started, 1 = Start returned nil, 2 = Start returned an error
	resp    *Message
	werr    bool // the write of Start failed
	retried bool
	failed  *vxCalls // handler of an earlier Start of this ID that returned an error
}

// vxTerminal: is e one of the permitted terminal events of transaction t?
func vxTerminal(t *vxTx, e Event) bool {
	if e.TransactionID != t.id {
		return false
	}
	switch {
	case e.Error == nil:
		return e.Message != nil && e.Message == t.resp
	case errors.Is(e.Error, ErrTransactionTimeOut):
		return true
	case errors.Is(e.Error, errVxWrite):
		return true
	case errors.Is(e.Error, ErrAgentClosed), errors.Is(e.Error, ErrClientClosed):
		return true
	}
	var se StopErr
	return errors.As(e.Error, &se)
}

// vxCloseWithLastTick: Close, optionally with the collector's last tick firing inside collector.Close()
// (the real ticker collector lets a pending tick finish there).
func vxCloseWithLastTick(env *vxClientEnv) {
	if vxChoose(2) == 1 {
		nt := vxTime()
		vxAssume(!nt.Before(env.clock.now))
		env.coll.onClose = func() { env.tick(nt) }
		vxReach("tick-inside-close")
	}
	_ = env.c.Close()
}

func vh_C10_history() {
	env := vxNewClient()
	env.c.maxAttempts = int32(vxChoose(2)) // 0 or 1 retransmission: timeouts are reachable within the depth
	env.c.SetRTO(time.Duration(1 + vxLen(1000)))
	// lock-set discipline of the client on every path of the history: closed and the transaction table
	// are only touched under c.mux (a failure is confirmed natively by TestVxClientRace under -race)
	vxGuard("Client", "closed", "mux")
	vxGuard("Client", "t", "mux")
	var txs [2]vxTx
	txs[0] = vxTx{id: vxID(), rec: &vxCalls{}}
	txs[1] = vxTx{id: vxID(), rec: &vxCalls{}}
	vxAssume(txs[0].id != txs[1].id)
	dup := &vxCalls{} // handler of a Start that must fail (duplicate ID)
	closed := false
	depth := vxK(3, 4)
	for step := 0; step < depth; step++ {
		t := &txs[vxChoose(2)]
		switch vxChoose(5) {
		case 0: // Start
			msg := vxRequest(t.id, 40)
			if t.started == 0 {
				err := env.c.Start(msg, t.rec.handle)
				if err == nil {
					t.started = 1
					vxReach("started")
				} else {
					t.started = 2
					vxReach("start-failed")
				}
			} else if t.started == 2 && !t.retried {
				// the application retries a failed Start with the same ID and a new handler
				t.retried = true
				vxAssert(len(t.rec.events) == 0, "the handler of the failed Start has not been invoked")
				t.failed = t.rec
				t.rec = &vxCalls{}
				if env.c.Start(msg, t.rec.handle) == nil {
					t.started = 1
					vxReach("retry-started")
				}
			} else if t.started == 1 && len(t.rec.events) == 0 {
				vxAssert(env.c.Start(msg, dup.handle) != nil, "a second Start with an in-flight ID fails")
				vxReach("duplicate-start")
			}
		case 1: // a response with this ID arrives (also late / duplicate / unsolicited)
			m := &Message{TransactionID: t.id}
			if t.started == 1 && len(t.rec.events) == 0 {
				t.resp = m
			}
			_ = env.deliver(m)
			vxReach("response")
		case 2: // the clock advances and the collector fires
			nt := vxTime()
			vxAssume(!nt.Before(env.clock.now))
			if !closed {
				env.tick(nt)
			}
			vxReach("tick")
		case 3:
			env.conn.failNext = true
			vxReach("fail-next-write")
		default:
			if !closed {
				closed = true
				vxCloseWithLastTick(env)
				vxReach("close-mid-history")
			}
		}
		for j := range txs {
			vxAssert(len(txs[j].rec.events) <= 1, "no handler is ever invoked twice")
			vxAssert(txs[j].failed == nil || len(txs[j].failed.events) == 0, "the handler of a Start that returned an error is never invoked")
		}
		vxAssert(len(dup.events) == 0, "the handler of a failed Start is never invoked")
	}
	if !closed {
		vxCloseWithLastTick(env)
	}
	for j := range txs {
		t := &txs[j]
		switch t.started {
		case 1:
			vxAssert(len(t.rec.events) == 1, "a started transaction's handler has been invoked exactly once by the time Close returns")
			if len(t.rec.events) == 1 {
				vxAssert(vxTerminal(t, t.rec.events[0]), "the invocation carries the matching response, a timeout, the write error or a closed error")
			}
		default:
			vxAssert(len(t.rec.events) == 0, "no handler call without a successful Start")
		}
		vxAssert(t.failed == nil || len(t.failed.events) == 0, "the handler of a Start that returned an error is never invoked (final)")
	}
	vxAssert(len(dup.events) == 0, "the handler of a failed Start is never invoked (final)")
}

// Do returns once its handler has run; while it waits the pending events happen.
var vxPending func() // executed when a sync.Cond.Wait would block (symbolically) / on another goroutine (natively)

func vxCondWait() {
	if vxPending != nil {
		f := vxPending
		vxPending = nil
		f()
	}
}

func vh_C10_do() {
	env := vxNewClient()
	env.c.maxAttempts = 0
	env.c.SetRTO(time.Duration(1 + vxLen(1000)))
	id := vxID()
	calls := 0
	var got Event
	var resp *Message
	kind := vxChoose(4)
	vxSpawn(func() {
		switch kind {
		case 0:
			resp = &Message{TransactionID: id}
			_ = env.deliver(resp)
			vxReach("response-while-waiting")
		case 1:
			nt := vxTime()
			vxAssume(env.clock.now.Add(2000).Before(nt))
			env.tick(nt)
			vxReach("timeout-while-waiting")
		case 2:
			_ = env.c.Close()
			vxReach("close-while-waiting")
		default:
			// a response for another transaction first, then ours
			other := vxID()
			vxAssume(other != id)
			_ = env.deliver(&Message{TransactionID: other})
			resp = &Message{TransactionID: id}
			_ = env.deliver(resp)
			vxReach("other-then-response")
		}
	})
	// Do takes its wait handler from the pool: hand it a known one, so that the callback can observe whether
	// the waiter could already be released while the callback is still running ("Do returns once that
	// invocation has finished": released = processed set and the condition's lock free)
	wh := &callbackWaitHandler{cond: sync.NewCond(new(sync.Mutex))}
	callbackWaitHandlerPool.Put(wh)
	err := env.c.Do(vxRequest(id, 40), func(e Event) {
		calls++
		got = e
		mu, isMutex := wh.cond.L.(*sync.Mutex)
		if isMutex {
			vxAssert(!(wh.processed && !vxMutexHeld(mu)), "the waiting Do is not released before its callback has finished")
		}
	})
	vxAssert(err == nil, "Do of a request on an open client succeeds")
	vxAssert(calls == 1, "Do returns after its handler has run exactly once")
	vxAssert(got.TransactionID == id, "the handler sees its own transaction")
	if kind == 0 || kind == 3 {
		vxAssert(got.Message == resp && got.Error == nil, "the handler sees the response")
	}
	_ = env.c.Close()
	vxAssert(calls == 1, "no second invocation at Close")
}

func vh_C10_selftest() {
	env := vxNewClient()
	rec := &vxCalls{}
	id := vxID()
	vxAssert(env.c.Start(vxRequest(id, 40), rec.handle) == nil, "Start succeeds")
	_ = env.deliver(&Message{TransactionID: id})
	vxAssert(len(rec.events) == 0, "selftest: deliberately false")
}
