package stun

// C01 / C02 for ANY number of attributes: loop-cut induction on the attribute
// loop of (*Message).Decode.
//
// The engine stops at the loop header (vxLoopCut).  On first arrival
// vxLoopBaseDecode checks the invariant on the real entry state; then
// vxLoopHavocDecode replaces the loop state by an ARBITRARY state satisfying
// the invariant (any offset that is a multiple of 4 within the declared body,
// b = the rest of the body, the attributes appended so far abstracted to a
// ghost count); ONE iteration of the real loop body runs; on the next arrival
// vxLoopStepDecode checks that the invariant is re-established, that offset
// grew by at least 4 (ranking function size-offset: the loop terminates), that
// the attribute appended in that iteration is a view of exactly the declared
// bytes at the right place, and that the independent reference parser makes
// the same step (same acceptance, same next offset, same TLV).  The exit edge
// from the havocked header continues into the harness's post-conditions.
// Invariant + step + exit cover messages with every attribute count.
//
// Native replay of a counterexample to induction: every invariant state is
// reachable — the first off0 body bytes are overwritten with off0/4 empty
// attributes, the real Decode runs from its real entry, and its result is
// compared with the full reference parse.

var vxInd struct {
	raw     []byte
	size    int
	off0    int // offset at the havocked header
	n0      int // ghost: number of attributes appended before
	havoced bool
	stepped bool
}

func vxIndSize() int { return int(vxAt(vxInd.raw, 2))<<8 | int(vxAt(vxInd.raw, 3)) }

func vxInvDecode(m *Message, offset int, b []byte, what string) {
	raw, size := vxInd.raw, vxInd.size
	vxAssert(offset >= 0 && offset%4 == 0 && offset <= size, what+": offset is a multiple of 4 within the declared body")
	vxAssert(vxSameObject(b, raw) || len(b) == 0, what+": b is a view of the message's buffer")
	vxAssert(len(b) == size-offset, what+": b is the rest of the declared body (length)")
	vxAssert(len(b) == 0 || vxOffsetIn(b, raw) == messageHeaderSize+offset, what+": b is the rest of the declared body (position)")
}

func vxLoopBaseDecode(m *Message, offset int, b []byte) {
	vxInd.size = vxIndSize()
	vxInvDecode(m, offset, b, "loop entry")
	vxAssert(offset == 0 && len(m.Attributes) == 0, "loop entry: nothing consumed, no attributes yet")
	vxAssert(len(vxInd.raw) >= messageHeaderSize+vxInd.size, "loop entry: the buffer holds the declared body")
}

func vxLoopHavocDecode(m *Message) (int, []byte) {
	raw, size := vxInd.raw, vxInd.size
	vxAssume(vxInd.off0%4 == 0)
	vxAssume(vxInd.off0 <= size)
	vxAssume(vxInd.n0*4 <= vxInd.off0)
	vxInd.havoced = true
	m.Attributes = m.Attributes[:0] // the attributes appended so far are abstracted to the ghost count n0
	return vxInd.off0, raw[messageHeaderSize+vxInd.off0 : messageHeaderSize+size]
}

// The same hooks for a loop that carries the offset only (an index walking over an immutable body slice
// instead of index + re-sliced rest): the rest of the body is then a function of the offset.
func vxIndRest(offset int) []byte {
	raw, size := vxInd.raw, vxInd.size
	if offset < 0 || offset > size || messageHeaderSize+size > len(raw) {
		return nil // the invariant's offset clause fails and is reported by vxInvDecode
	}
	return raw[messageHeaderSize+offset : messageHeaderSize+size]
}

func vxLoopBaseDecode1(m *Message, offset int) {
	vxInd.size = vxIndSize()
	vxLoopBaseDecode(m, offset, vxIndRest(offset))
}

func vxLoopHavocDecode1(m *Message) int {
	o, _ := vxLoopHavocDecode(m)
	return o
}

func vxLoopStepDecode1(m *Message, offset int) { vxLoopStepDecode(m, offset, vxIndRest(offset)) }

// refStep: one step of the reference parser at body offset o (o < L).
func refStep(raw []byte, L, o int) (ok bool, next int, a refAttr) {
	if L-o < 4 {
		return false, 0, a
	}
	t := uint16(refBE16(raw, 20+o))
	l := refBE16(raw, 20+o+2)
	p := (l + 3) &^ 3
	if L-o-4 < p {
		return false, 0, a
	}
	if t == 0x8020 {
		t = 0x0020
	}
	return true, o + 4 + p, refAttr{typ: t, len: l, off: 20 + o + 4}
}

func vxLoopStepDecode(m *Message, offset int, b []byte) {
	raw, size, off0 := vxInd.raw, vxInd.size, vxInd.off0
	vxInd.stepped = true
	vxReach("step")
	vxInvDecode(m, offset, b, "after one iteration")
	vxAssert(offset >= off0+4, "every iteration consumes at least a TLV header: the loop terminates")
	vxAssert(len(m.Attributes) == 1, "one iteration appends exactly one attribute")
	a := m.Attributes[0]
	ok, next, ra := refStep(raw, size, off0)
	vxAssert(ok, "the reference parser accepts the TLV the decoder accepted")
	vxAssert(offset == next, "decoder and reference parser advance to the same offset")
	vxAssert(uint16(a.Type) == ra.typ && int(a.Length) == ra.len, "type (alias mapped) and length are those of the reference parse")
	vxAssert(len(a.Value) == ra.len, "the view has the declared length")
	vxAssert(len(a.Value) == 0 || (vxSameObject(a.Value, raw) && vxOffsetIn(a.Value, raw) == ra.off), "the value is a view of exactly the declared bytes")
	vxAssert(ra.off+ra.len <= messageHeaderSize+size, "the value ends inside the declared body")
	vxAssert((vxInd.n0+1)*4 <= offset, "attribute count stays bounded by consumed bytes / 4")
}

// refParseAll: the reference parser without attribute bound (native replay only).
func refParseAll(raw []byte) (ok bool, attrs []refAttr) {
	r := refParse(raw, 0)
	if !r.ok && !r.over {
		return false, nil
	}
	L := r.length
	for o := 0; o < L; {
		sok, next, a := refStep(raw, L, o)
		if !sok {
			return false, nil
		}
		attrs = append(attrs, a)
		o = next
	}
	return true, attrs
}

func vh_C01_decode_induct() {
	raw := vxRawBuf()
	m := vxStaleMessage()
	m.Raw = raw
	vxInd.raw = raw
	vxInd.off0 = vxLen(65535)
	vxInd.n0 = vxLen(16384)
	vxInd.havoced, vxInd.stepped = false, false
	if vxNativeRun() {
		// reach the invariant state through the real entry: off0/4 empty attributes in front
		for i := 0; i < vxInd.off0 && messageHeaderSize+i < len(raw); i++ {
			raw[messageHeaderSize+i] = 0
		}
		err := m.Decode()
		ok, attrs := refParseAll(raw)
		vxAssert((err == nil) == ok, "native: decoder and reference parser agree on acceptance")
		if err == nil {
			vxAssert(len(m.Attributes) == len(attrs), "native: same attribute count")
			for i := range attrs {
				a := m.Attributes[i]
				vxAssert(uint16(a.Type) == attrs[i].typ && int(a.Length) == attrs[i].len && len(a.Value) == attrs[i].len, "native: same TLV")
				vxAssert(len(a.Value) == 0 || vxOffsetIn(a.Value, raw) == attrs[i].off, "native: value at the reference offset")
			}
		}
		return
	}
	vxLoopCut("Message", "Decode")
	err := m.Decode()
	if err != nil {
		if vxInd.havoced {
			// rejected inside the arbitrary iteration: the reference parser rejects that TLV too
			vxReach("reject-in-iteration")
			ok, _, _ := refStep(raw, vxInd.size, vxInd.off0)
			vxAssert(!ok, "the reference parser rejects the TLV the decoder rejected")
		}
		return
	}
	if !vxInd.havoced {
		// success without arriving at the loop header (a fast path in front of the loop): only an
		// attribute-less message may take it, and it must report no attributes
		vxAssert(vxIndSize() == 0, "success without entering the attribute loop only for an empty body")
		vxAssert(len(m.Attributes) == 0, "an attribute-less message decodes to an empty attribute list")
		vxAssert(IsMessage(raw) && m.Length == 0 && len(raw) >= messageHeaderSize, "header-only success: IsMessage, Length 0")
		return
	}
	// the loop was left at the havocked header: offset >= size, so with the invariant offset == size
	vxReach("exit")
	vxAssert(!vxInd.stepped, "success is reached through the loop exit")
	vxAssert(vxInd.off0 == vxInd.size, "on success the attributes tile the declared body exactly")
	vxAssert(IsMessage(raw), "IsMessage is true for every input that decodes")
	vxAssert(int(m.Length) == vxInd.size && len(raw) >= messageHeaderSize+vxInd.size, "Length is the declared length and the body is present")
	vxAssert(vxInd.n0*4 <= vxInd.size, "attribute count bounded by body length / 4")
}
