package stun

import "errors"

// C05 — FINGERPRINT follows RFC 5389 §15.5 and detects bit corruption.
//
// Layer 1 (this file): the code's span / length / XOR / comparison logic with
// CRC-32 as an uninterpreted function shared with the oracle (vxCRC32).
// Layer 2 (/verif/harness/crc32): CRC-32 burst lemmas on the standard library's
// own simpleUpdate.  Layer 3 (vh_C05_burst): a symbolic burst applied to a
// library-built message, decoded and checked by the real code, using the one
// instance of "different spans (within one <=32-bit window) => different CRC"
// that layer 2 justifies.

const refFingerprintXOR = 0x5354554e

func refFingerprint(raw []byte) uint32 { // §15.5 over all bytes before the last 8
	return vxCRC32(raw[:len(raw)-8]) ^ refFingerprintXOR
}

// AddTo on any built state appends CRC(preceding bytes with the final length) ^ XOR, as last attribute.
func vh_C05_add() {
	k := vxK(1, 2)
	m, ok := vxBuiltState(k)
	if !ok {
		return
	}
	vxAssume(m.Length <= 60000)
	snap := vxSnapshot(m)
	vxAssert(Fingerprint.AddTo(m) == nil, "adding FINGERPRINT succeeds")
	vxReach("added")
	vxAssert(len(m.Raw) == len(snap.raw)+8, "FINGERPRINT appends one 8-byte TLV")
	vxAssert(m.Length == snap.length+8 && refBE16(m.Raw, 2) == int(m.Length), "Length and the header length field count the new TLV")
	vxAssert(len(m.Attributes) == snap.nattr+1, "one attribute is appended to the struct")
	last := m.Attributes[len(m.Attributes)-1]
	vxAssert(last.Type == AttrFingerprint && last.Length == 4 && len(last.Value) == 4, "the new attribute is a 4-byte FINGERPRINT")
	vxAssert(refBE16(m.Raw, len(snap.raw)) == 0x8028 && refBE16(m.Raw, len(snap.raw)+2) == 4, "the TLV header on the wire is FINGERPRINT, length 4")
	// oracle: the preceding bytes with the header length already counting the FINGERPRINT TLV
	span := make([]byte, len(snap.raw))
	copy(span, snap.raw)
	l := int(snap.length) + 8
	span[2], span[3] = byte(l>>8), byte(l)
	want := vxCRC32(span) ^ refFingerprintXOR
	vxAssert(refBE32(m.Raw, len(snap.raw)+4) == want, "the value is CRC-32 of all preceding bytes (final length) XOR 0x5354554e")
	w := vxWitness(len(snap.raw))
	vxAssert(vxImplies(w < len(snap.raw) && w != 2 && w != 3, vxAt(m.Raw, w) == vxAt(snap.raw, w)), "adding FINGERPRINT leaves earlier bytes unchanged")
}

// end to end on small messages (concrete sizes): add, check, with and without MESSAGE-INTEGRITY before
func vh_C05_add_check() {
	var m *Message
	if vxChoose(2) == 0 {
		m = vxFreshMsg()
		if n := vxChoose(6); n > 0 {
			m.Add(AttrType(vxU16()&0x7FF0), vxBytes(n-1, n-1))
		}
	} else {
		m = vxDecodedWithTrailing()
		vxReach("decoded-with-trailing-bytes")
	}
	if vxChoose(2) == 1 {
		vxAssert(MessageIntegrity(vxKey()).AddTo(m) == nil, "integrity before fingerprint")
		vxReach("with-integrity")
	}
	vxAssert(Fingerprint.AddTo(m) == nil, "adding FINGERPRINT succeeds")
	vxAssert(Fingerprint.Check(m) == nil, "a message fingerprinted by the library passes the check")
	vxReach("checked")
}

// Check on an arbitrary decodable message: nil iff the first FINGERPRINT has a
// 4-byte value equal to CRC(everything before the last 8 bytes of Raw) ^ XOR.
func vh_C05_check() {
	k := vxK(2, 3)
	m, raw, ok := vxDecoded(k)
	if !ok {
		return
	}
	snap := vxSnapshot(m)
	err := Fingerprint.Check(m)
	vxUnchanged(m, snap, "Fingerprint.Check")
	b, gerr := m.Get(AttrFingerprint)
	if gerr != nil {
		vxReach("absent")
		vxAssert(errors.Is(err, ErrAttributeNotFound), "no FINGERPRINT: not found")
		return
	}
	if len(b) != 4 {
		vxReach("wrong-size")
		vxAssert(err != nil && IsAttrSizeInvalid(err), "a FINGERPRINT that is not 4 bytes is a size error")
		return
	}
	if len(m.Attributes) > 1 && m.Attributes[len(m.Attributes)-1].Type != AttrFingerprint {
		vxReach("not-last")
	}
	vxReach("four-bytes")
	got := uint32(b[0])<<24 | uint32(b[1])<<16 | uint32(b[2])<<8 | uint32(b[3])
	vxAssert((err == nil) == (got == refFingerprint(raw)), "passes iff the value equals CRC(bytes before the last 8) XOR 0x5354554e")
}

// the same, constructively (the oracle value is written into a FINGERPRINT that is the
// last attribute of a buffer without trailing bytes) so that counterexamples replay with the real CRC
func vh_C05_check_last() {
	k := vxK(2, 3)
	m, raw, ok := vxDecoded(k)
	if !ok {
		return
	}
	n := len(m.Attributes)
	if n == 0 || m.Attributes[n-1].Type != AttrFingerprint || len(m.Attributes[n-1].Value) != 4 {
		return
	}
	vxAssume(len(raw) == messageHeaderSize+int(m.Length))
	for i := 0; i < n-1; i++ {
		vxAssume(m.Attributes[i].Type != AttrFingerprint)
	}
	want := refFingerprint(raw)
	v := m.Attributes[n-1].Value
	good := vxChoose(2) == 0
	x := uint32(0)
	if !good {
		x = vxU32()
		vxAssume(x != 0)
	}
	want ^= x
	v[0], v[1], v[2], v[3] = byte(want>>24), byte(want>>16), byte(want>>8), byte(want)
	err := Fingerprint.Check(m)
	if good {
		vxReach("correct")
		vxAssert(err == nil, "the RFC value in a trailing FINGERPRINT passes")
	} else {
		vxReach("corrupted")
		vxAssert(err != nil, "any other value fails")
	}
}

// constructively for a FINGERPRINT that is NOT the last attribute: a value computed over the attribute's own
// prefix (what a check anchored at the attribute would accept) is not the CRC over everything before the last
// 8 bytes of the raw message, so the check fails (the two CRCs are computed by the oracle; natively by crc32).
func vh_C05_check_notlast() {
	k := vxK(2, 3)
	m, raw, ok := vxDecoded(k)
	if !ok {
		return
	}
	n := len(m.Attributes)
	if n < 2 {
		return
	}
	i := 0
	for i < n && m.Attributes[i].Type != AttrFingerprint {
		i++
	}
	if i >= n-1 || len(m.Attributes[i].Value) != 4 {
		return // no FINGERPRINT, or the first one is last, or not 4 bytes
	}
	v := m.Attributes[i].Value
	fpOff := vxOffsetIn(v, raw) - attributeHeaderSize
	want := vxCRC32(raw[:fpOff]) ^ refFingerprintXOR
	v[0], v[1], v[2], v[3] = byte(want>>24), byte(want>>16), byte(want>>8), byte(want)
	vxAssume(refFingerprint(raw) != want) // the RFC span gives another value (two different byte strings)
	vxReach("own-prefix-value")
	vxAssert(Fingerprint.Check(m) != nil, "a FINGERPRINT that is not last and carries the CRC of its own prefix fails: the span is everything before the last 8 bytes")
}

// vxBurstByte: byte j of a <=32-bit burst `pattern` (bit 0 = first flipped bit)
// starting at absolute bit position start (bit 0 of byte 0 first).
func vxBurstByte(j int, start int, pattern uint32) byte {
	rel := j*8 - start // bit offset of byte j relative to the burst start
	if rel <= -8 || rel >= 32 {
		return 0
	}
	if rel >= 0 {
		return byte(pattern >> uint(rel))
	}
	return byte(pattern << uint(-rel))
}

// Layer 3: a burst of <= 32 bits anywhere in a fingerprinted message is detected
// (decoding fails, or the check fails) whenever FINGERPRINT remains the
// message's only such attribute, located in its last 8 bytes.
func vh_C05_burst() {
	m := vxFreshMsg()
	if n := vxChoose(vxK(2, 6)); n > 0 {
		m.Add(AttrType(vxU16()&0x7FF0), vxBytes(n-1, n-1))
		vxReach("with-attribute")
	}
	vxAssert(Fingerprint.AddTo(m) == nil, "adding FINGERPRINT succeeds")
	n := len(m.Raw) // concrete
	orig := make([]byte, n)
	copy(orig, m.Raw)
	start := vxLen(n*8 - 1)
	pattern := vxU32()
	vxAssume(pattern&1 == 1) // the burst starts with a flipped bit
	mod := make([]byte, n)
	for j := 0; j < n; j++ {
		mod[j] = orig[j] ^ vxBurstByte(j, start, pattern)
	}
	if pattern == 1 {
		vxReach("single-bit")
	}
	// layer 2: spans of equal length that differ inside one <=32-bit window have different CRCs
	if start < (n-8)*8 {
		vxReach("burst-in-span")
		vxAssume(vxCRC32(mod[:n-8]) != vxCRC32(orig[:n-8]))
	}
	d := new(Message)
	d.Raw = mod
	if d.Decode() != nil {
		vxReach("decode-fails")
		return
	}
	// does FINGERPRINT remain the only such attribute, in the last 8 bytes?
	cnt := 0
	for _, a := range d.Attributes {
		if a.Type == AttrFingerprint {
			cnt++
		}
	}
	la := len(d.Attributes)
	if cnt != 1 || d.Attributes[la-1].Type != AttrFingerprint || vxOffsetIn(d.Attributes[la-1].Value, mod) != n-4 {
		vxReach("fingerprint-displaced")
		return
	}
	vxReach("check-decides")
	vxAssert(Fingerprint.Check(d) != nil, "a burst of up to 32 bits is detected by the fingerprint check")
}

func vh_C05_selftest() {
	m := vxFreshMsg()
	vxAssert(Fingerprint.AddTo(m) == nil, "ok")
	vxAssert(Fingerprint.Check(m) != nil, "selftest: deliberately false")
}
