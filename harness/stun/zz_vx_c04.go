package stun

import "errors"

// C04 — MESSAGE-INTEGRITY is computed and verified exactly as RFC 5389 §15.4.
//
// HMAC-SHA1 is an uninterpreted function H(key, bytes) (vxHMACSHA1): the
// implementation's pooled HMAC and the oracle use the same H, so the solver
// decides that the implementation hashes exactly the RFC span.  That the pooled
// HMAC equals RFC 2104 over SHA-1 is C18; that SHA-1 is collision resistant is
// cryptography and outside any claim here.

// refIntegritySpan: RFC 5389 §15.4 — the message bytes preceding the
// MESSAGE-INTEGRITY attribute whose TLV header starts at offset off, with the
// header length field rewritten to end right after that attribute.
func refIntegritySpan(raw []byte, off int) []byte {
	s := make([]byte, off)
	copy(s, raw[:off])
	l := off + 24 - 20
	s[2] = byte(l >> 8)
	s[3] = byte(l)
	return s
}

func vxKey() []byte {
	n := vxLen(200)
	return vxBytes(n, n)
}

// signing: on any built state, AddTo appends HMAC(key, RFC span) and the result verifies.
func vh_C04_sign() {
	k := vxK(1, 2)
	m, ok := vxBuiltState(k)
	if !ok {
		return
	}
	vxAssume(m.Length <= 60000)
	for _, a := range m.Attributes {
		vxAssume(a.Type != AttrFingerprint)
		vxAssume(a.Type != AttrMessageIntegrity) // Check looks at the first MESSAGE-INTEGRITY
	}
	key := vxKey()
	snap := vxSnapshot(m)
	i := MessageIntegrity(key)
	vxAssert(i.AddTo(m) == nil, "signing succeeds when no FINGERPRINT is present")
	vxReach("signed")
	// C03's step for Add shows that appending one well-formed TLV to a coherent message keeps it coherent;
	// here the appended TLV and the untouched prefix are decided directly
	vxAssert(len(m.Raw) == len(snap.raw)+24, "signing appends one 24-byte TLV")
	vxAssert(m.Length == snap.length+24 && refBE16(m.Raw, 2) == int(m.Length), "Length and the header length field count the new TLV")
	vxAssert(len(m.Attributes) == snap.nattr+1, "one attribute is appended to the struct")
	vxAssert(refBE16(m.Raw, len(snap.raw)) == 0x0008 && refBE16(m.Raw, len(snap.raw)+2) == 20, "the TLV header on the wire is MESSAGE-INTEGRITY, length 20")
	last := m.Attributes[len(m.Attributes)-1]
	vxAssert(last.Type == AttrMessageIntegrity && last.Length == 20, "the new attribute is a 20-byte MESSAGE-INTEGRITY")
	want := vxHMACSHA1(key, refIntegritySpan(snap.raw, len(snap.raw)))
	for j := 0; j < 20; j++ {
		vxAssert(vxAt(m.Raw, len(snap.raw)+4+j) == want[j], "the MAC is HMAC-SHA1(key, preceding bytes with the adjusted length)")
	}
	w := vxWitness(len(snap.raw))
	vxAssert(vxImplies(w < len(snap.raw) && w != 2 && w != 3, vxAt(m.Raw, w) == vxAt(snap.raw, w)), "signing leaves earlier bytes unchanged")
	vxAssert(errors.Is(i.AddTo(m), ErrFingerprintBeforeIntegrity) == m.Contains(AttrFingerprint), "a second signature is accepted as long as no FINGERPRINT is present")
}

// sign-then-verify end to end (small messages: every step re-reads the whole buffer):
// a message signed by the library verifies under the same key, also after
// FINGERPRINT or a further attribute has been appended, and signing is refused after FINGERPRINT.
func vh_C04_sign_verify() {
	m := vxFreshMsg()
	if n := vxChoose(6); n > 0 { // concrete sizes 0..4 (every residue mod 4): buffer growth stays concrete
		m.Add(AttrType(vxU16()&0x7FF0), vxBytes(n-1, n-1)) // not MESSAGE-INTEGRITY / FINGERPRINT
		vxReach("with-attribute")
	}
	key := vxKey()
	i := MessageIntegrity(key)
	vxAssert(i.AddTo(m) == nil, "signing succeeds when no FINGERPRINT is present")
	vxAssert(i.Check(m) == nil, "a message signed by the library verifies under the same key")
	vxReach("verified")
	switch vxChoose(4) {
	case 1:
		vxAssert(Fingerprint.AddTo(m) == nil, "fingerprint can be added after integrity")
		vxAssert(i.Check(m) == nil, "still verifies after FINGERPRINT was appended")
		vxAssert(errors.Is(i.AddTo(m), ErrFingerprintBeforeIntegrity), "signing is refused once FINGERPRINT is present")
		if vxChoose(2) == 1 {
			m.Add(AttrType(vxU16()&0x7FF0), vxBytes(2, 2))
			vxAssert(errors.Is(i.AddTo(m), ErrFingerprintBeforeIntegrity), "signing is refused when FINGERPRINT is present but not last")
		}
		vxReach("then-fingerprint")
	case 3: // two further attributes of every pair of length residues
		n1, n2 := vxChoose(5), vxChoose(5)
		m.Add(AttrType(vxU16()&0x7FF0), vxBytes(n1, n1))
		m.Add(AttrType(vxU16()&0x7FF0), vxBytes(n2, n2))
		vxAssert(i.Check(m) == nil, "still verifies after two further attributes of any lengths were appended")
		vxReach("then-two-attributes")
	case 2:
		n := vxChoose(4)
		m.Add(AttrType(vxU16()&0x7FF0), vxBytes(n, n))
		vxAssert(i.Check(m) == nil, "still verifies after another attribute was appended")
		vxReach("then-attribute")
	}
}

// verification on an arbitrary decodable message: Check == nil iff the first
// MESSAGE-INTEGRITY has 20 bytes equal to H(key, RFC span), whatever follows it.
func vh_C04_check() {
	k := vxK(2, 3)
	m, raw, ok := vxDecoded(k)
	if !ok {
		return
	}
	key := vxKey()
	i := MessageIntegrity(key)
	mac, gerr := m.Get(AttrMessageIntegrity)
	if gerr != nil {
		vxReach("absent")
		snap := vxSnapshot(m)
		vxAssert(errors.Is(i.Check(m), ErrAttributeNotFound), "no MESSAGE-INTEGRITY: not found")
		vxUnchanged(m, snap, "Check without MESSAGE-INTEGRITY")
		return
	}
	if len(m.Attributes) > 1 && m.Attributes[len(m.Attributes)-1].Type != AttrMessageIntegrity {
		vxReach("attributes-after-mac")
	}
	if len(m.Attributes) > 1 && m.Attributes[0].Type != AttrMessageIntegrity {
		vxReach("attributes-before-mac")
	}
	off := vxOffsetIn(mac, raw) - 4 // offset of the MESSAGE-INTEGRITY TLV header
	want := vxHMACSHA1(key, refIntegritySpan(raw, off))
	// constructive cases (so that every counterexample replays with the real HMAC)
	good := false
	which := vxChoose(4)
	switch which {
	case 0: // the correct MAC, 20 bytes
		if len(mac) != 20 {
			return
		}
		copy(mac, want[:])
		good = true
		vxReach("correct-mac")
	case 1: // the correct MAC bytes but a length other than 20
		if len(mac) == 20 {
			return
		}
		copy(mac, want[:])
		vxReach("wrong-length")
	case 2: // 20 bytes, one of them wrong
		if len(mac) != 20 {
			return
		}
		copy(mac, want[:])
		p, x := vxLen(19), vxU8()
		vxAssume(x != 0)
		mac[p] ^= x
		vxReach("corrupted-mac")
	default:
		// a MAC (of any length) computed over ANY OTHER prefix of the message with ANY length field:
		// must not verify.  This is the constructive form of "equals HMAC over exactly the RFC span".
		e, l := vxLen(1<<16), vxU16()
		vxAssume(e >= 4)
		vxAssume(e <= off+4) // a prefix that ends before the MAC value (the MAC cannot cover itself)
		other := make([]byte, e)
		copy(other, raw[:e])
		other[2], other[3] = byte(l>>8), byte(l)
		wantOther := vxHMACSHA1(key, other)
		if len(mac) == 20 {
			vxAssume(e != off || int(l) != off+4) // a different span ...
			vxAssume(wantOther != want)           // ... has a different HMAC (cryptographic idealisation, stated)
		}
		copy(mac, wantOther[:])
		vxReach("mac-over-other-span")
	}
	snap := vxSnapshot(m)
	err := i.Check(m)
	if good {
		vxAssert(err == nil, "the first MESSAGE-INTEGRITY equal to HMAC over the RFC span verifies, whatever follows it")
	} else {
		switch which {
		case 1:
			vxAssert(err != nil, "a MAC whose length is not 20 does not verify")
		case 2:
			vxAssert(err != nil, "a MAC with a wrong byte does not verify")
		default:
			vxAssert(err != nil, "a MAC computed over any other prefix / length field does not verify")
		}
	}
	vxUnchangedOrMoved(m, snap, "Check", messageIntegritySize)
}

// a change to a covered byte (header type / transaction ID / a value byte before the MAC) is detected
func vh_C04_tamper() {
	m, ok := vxBuiltState(1)
	if !ok {
		return
	}
	vxAssume(m.Length <= 60000)
	for _, a := range m.Attributes {
		vxAssume(a.Type != AttrFingerprint)
		vxAssume(a.Type != AttrMessageIntegrity)
	}
	key := vxKey()
	i := MessageIntegrity(key)
	covered := len(m.Raw)
	before := refIntegritySpan(m.Raw, covered)
	vxAssert(i.AddTo(m) == nil, "signing succeeds")
	// flip a byte that is covered but does not change the framing
	p, x := vxLen(1<<16), vxU8()
	vxAssume(x != 0)
	vxAssume(p < covered)
	inHeader := p < 2 || (p >= 8 && p < 20)
	inValue := len(m.Attributes) == 2 && p >= 24 && p < 24+len(m.Attributes[0].Value)
	vxAssume(inHeader || inValue)
	if inValue {
		vxReach("value-byte")
	} else {
		vxReach("header-byte")
	}
	m.Raw[p] ^= x
	after := refIntegritySpan(m.Raw, covered)
	// cryptographic idealisation, stated: HMACs of two different spans differ
	vxAssume(vxHMACSHA1(key, before) != vxHMACSHA1(key, after))
	vxAssert(i.Check(m) != nil, "a change to a covered byte is detected")
}

// credentials
func vh_C04_keys() {
	u, r, p := vxString(vxLen(6), 6), vxString(vxLen(6), 6), vxString(vxLen(6), 6) // any bytes, '%' included
	lt := NewLongTermIntegrity(u, r, p)
	joined := []byte(u + ":" + r + ":" + p)
	want := vxMD5(joined)
	vxAssert(len(lt) == 16, "long-term key is an MD5 digest")
	for j := 0; j < 16 && j < len(lt); j++ {
		vxAssert(lt[j] == want[j], "long-term key is MD5(user:realm:password)")
	}
	st := NewShortTermIntegrity(p)
	vxAssert(len(st) == len(p), "short-term key is the password")
	w := vxWitness(len(p))
	vxAssert(vxImplies(w < len(p), vxAt(st, w) == vxAt([]byte(p), w)), "short-term key is the password bytes")
	vxReach("keys")
}

// the MAC comparison is full equality including length
func vh_C04_compare() {
	la, lb := []int{0, 1, 19, 20, 21}[vxChoose(5)], []int{0, 1, 19, 20, 21}[vxChoose(5)]
	a, b := vxBytes(la, la), vxBytes(lb, lb)
	equal := la == lb
	for j := 0; j < la && j < lb; j++ {
		equal = equal && a[j] == b[j]
	}
	err := checkHMAC(a, b)
	vxAssert((err == nil) == equal, "MAC comparison is equality of length and of every byte")
	vxReach("compared")
}

// vxDecodedWithTrailing: a small well-formed message followed by 1..4 bytes
// that are not covered by its declared length (the decoder tolerates them, C02),
// decoded into a fresh Message.
func vxDecodedWithTrailing() *Message {
	m := vxFreshMsg()
	if n := vxChoose(3); n > 0 {
		m.Add(AttrType(vxU16()&0x7FF0), vxBytes(n+2, n+2))
	}
	// fewer and more trailing bytes than the TLV that is appended afterwards (8 for FINGERPRINT, 24 for MESSAGE-INTEGRITY)
	t := []int{1, 2, 3, 4, 9, 12, 25, 40}[vxChoose(8)]
	raw := make([]byte, len(m.Raw)+t, len(m.Raw)+t+vxChoose(2)*32)
	copy(raw, m.Raw)
	copy(raw[len(m.Raw):], vxBytes(t, t))
	d := new(Message)
	d.Raw = raw
	vxAssert(d.Decode() == nil, "bytes after the declared length are tolerated")
	return d
}

// signing a message that was decoded from a datagram with trailing bytes
func vh_C04_sign_trailing() {
	d := vxDecodedWithTrailing()
	i := MessageIntegrity(vxKey())
	vxAssert(i.AddTo(d) == nil, "signing succeeds")
	vxReach("signed")
	vxAssert(i.Check(d) == nil, "a message signed by the library verifies (decoded from a datagram with trailing bytes)")
}

func vh_C04_selftest() {
	m := vxFreshMsg()
	i := MessageIntegrity(vxKey())
	if i.AddTo(m) != nil {
		return
	}
	vxAssert(i.Check(m) != nil, "selftest: deliberately false")
}
