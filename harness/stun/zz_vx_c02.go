package stun

import "errors"

// C02 — the decoder accepts exactly RFC 5389 framing and reports its TLV list.

func vh_C02_framing() {
	k := 2 // unrolled: every header-level case and up to 2 TLVs; the per-TLV equivalence for any count is vh_C01_decode_induct
	vxUnwind(k, true)
	raw := vxRawBuf()
	m := vxStaleMessage() // whatever the Message held before (stale fields, stale attribute list)
	m.Raw = raw
	err := m.Decode()
	r := refParse(raw, k)
	if r.over {
		return // more than k attributes: outside this run's bound
	}
	if r.ok {
		vxReach("ref-accepts")
		vxAssert(err == nil, "RFC 5389 well-framed input is accepted")
	} else {
		vxReach("ref-rejects")
		vxAssert(err != nil, "input that is not RFC 5389 framed is rejected")
	}
	if err != nil || !r.ok {
		return
	}
	if r.n == k {
		vxReach("max-attrs")
	}
	vxMatchesRef(m, raw, &r)
}

func vh_C02_selftest() {
	vxUnwind(1, true)
	raw := vxRawBuf()
	m := &Message{Raw: raw}
	err := m.Decode()
	r := refParse(raw, 1)
	if r.over {
		return
	}
	vxAssert(r.ok == (err != nil), "selftest: deliberately false")
}

var errVxCallback = errors.New("vx callback failure")

// Get / Contains / ForEach on an arbitrary decoded message.
func vh_C02_lookup() {
	k := vxK(2, 3)
	vxUnwind(k, true)
	raw := vxRawBuf()
	m := &Message{Raw: raw}
	if m.Decode() != nil {
		return
	}
	vxLookupChecks(m, raw)
}

// vh_C02_lookup_direct: the same oracle on an attribute list built directly (0..4 entries of
// symbolic types, so up to four duplicates and a match behind any number of non-matches),
// independent of the decoder's unwinding bound.
func vh_C02_lookup_direct() {
	raw := vxBytes(40, 40)
	m := &Message{Raw: raw}
	n := vxChoose(5)
	for i := 0; i < n; i++ {
		l := vxLen(4)
		m.Attributes = append(m.Attributes, RawAttribute{Type: AttrType(vxU16()), Length: uint16(l), Value: raw[8*i : 8*i+l]})
	}
	if n == 4 {
		vxReach("four-attributes")
	}
	vxLookupChecks(m, raw)
}

func vxLookupChecks(m *Message, raw []byte) {
	t := AttrType(vxU16())
	n := len(m.Attributes)
	// oracle: indices of the attributes of type t, in order
	var match [vxMaxAttrs]int
	nm := 0
	for i := 0; i < n; i++ {
		if m.Attributes[i].Type == t {
			match[nm] = i
			nm++
		}
	}
	if nm > 0 {
		vxReach("found")
	} else {
		vxReach("not-found")
	}
	if nm > 1 {
		vxReach("duplicate")
	}
	a, ok := m.Attributes.Get(t)
	vxAssert(ok == (nm > 0), "Attributes.Get finds iff an attribute of that type exists")
	if ok {
		f := m.Attributes[match[0]]
		vxAssert(a.Type == t, "Get returns the requested type")
		vxAssert(a.Length == f.Length, "Get returns the first match (length)")
		vxAssert(vxSameObject(a.Value, raw), "Get returns a view of the message")
		vxAssert(vxOffsetIn(a.Value, raw) == vxOffsetIn(f.Value, raw), "Get returns the first match (value)")
		vxAssert(len(a.Value) == len(f.Value), "Get returns the first match (value length)")
	}
	v, err := m.Get(t)
	vxAssert((err == nil) == (nm > 0), "Message.Get succeeds iff an attribute of that type exists")
	if err != nil {
		vxAssert(errors.Is(err, ErrAttributeNotFound), "Message.Get reports ErrAttributeNotFound")
	} else {
		f := m.Attributes[match[0]]
		vxAssert(vxOffsetIn(v, raw) == vxOffsetIn(f.Value, raw), "Message.Get returns the first match")
		vxAssert(len(v) == len(f.Value), "Message.Get returns the first match (length)")
	}
	vxAssert(m.Contains(t) == (nm > 0), "Contains is membership")

	// ForEach: visits every match in order, Get inside the k-th call sees the
	// k-th match, the attribute list is restored also when the callback fails.
	before := m.Attributes
	failAt := vxInt() // the callback fails at this visit (never if out of range)
	visits := 0
	ferr := m.ForEach(t, func(mm *Message) error {
		vxAssert(mm == m, "callback receives the message")
		if visits < nm {
			want := before[match[visits]]
			got, gerr := mm.Get(t)
			vxAssert(gerr == nil, "Get inside the callback finds the visited attribute")
			vxAssert(vxOffsetIn(got, raw) == vxOffsetIn(want.Value, raw), "k-th callback sees the k-th match")
			vxAssert(len(got) == len(want.Value), "k-th callback sees the k-th match (length)")
		}
		visits++
		if visits-1 == failAt {
			return errVxCallback
		}
		return nil
	})
	if failAt >= 0 && failAt < nm {
		vxReach("callback-fails")
		vxAssert(ferr == errVxCallback, "ForEach returns the callback's error")
		vxAssert(visits == failAt+1, "ForEach stops at the failing callback")
	} else {
		vxAssert(ferr == nil, "ForEach succeeds when no callback fails")
		vxAssert(visits == nm, "ForEach visits every attribute of the type exactly once")
	}
	vxAssert(vxSameAttrHeader(m.Attributes, before), "ForEach leaves the attribute list as it found it")
	vxAssert(vxSameObject(m.Raw, raw), "ForEach leaves Raw alone")
}
