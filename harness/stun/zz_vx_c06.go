package stun

import "net"

// C06 — typed attributes round-trip and use the RFC 5389 §15 wire formats.
// Oracles: encoders/decoders written from the RFC text (refEnc*/refDec*).

func vxFreshMsg() *Message {
	m := new(Message)
	m.Type = MessageType{Method: MethodBinding, Class: ClassSuccessResponse}
	m.TransactionID = vxID()
	m.WriteHeader()
	return m
}

func vxRedecode(m *Message) *Message {
	d := new(Message)
	d.Raw = make([]byte, len(m.Raw))
	copy(d.Raw, m.Raw)
	vxAssert(d.Decode() == nil, "the built message decodes")
	return d
}

// vxAddr: an IPv4, IPv6 or IPv4-mapped IPv6 address; returns the value as
// given to the setter and its canonical (RFC) form.
func vxAddr() (ip net.IP, canon net.IP, family byte) {
	switch vxChoose(3) {
	case 0:
		ip = net.IP(vxBytes(4, 4))
		return ip, ip, 1
	case 1:
		ip = net.IP(vxBytes(16, 16))
		// not of the form ::ffff:a.b.c.d
		z := ip[0] | ip[1] | ip[2] | ip[3] | ip[4] | ip[5] | ip[6] | ip[7] | ip[8] | ip[9]
		vxAssume(z != 0 || ip[10] != 0xff || ip[11] != 0xff)
		return ip, ip, 2
	default:
		ip = net.IP(vxBytes(16, 16))
		for i := 0; i < 10; i++ {
			vxAssume(ip[i] == 0)
		}
		vxAssume(ip[10] == 0xff)
		vxAssume(ip[11] == 0xff)
		return ip, ip[12:16], 1
	}
}

// vxPrevIP: the destination's IP slice as left by an earlier use.
func vxPrevIP() net.IP {
	switch vxChoose(5) {
	case 0:
		return nil
	case 1:
		return net.IP(vxBytes(4, 4))
	case 2:
		return net.IP(vxBytes(16, 16))
	case 3:
		return net.IP(vxBytes(0, 20))
	default:
		return net.IP(vxBytes(2, 3))
	}
}

// refEncAddr: RFC 5389 §15.1 / §15.2 value: 0x00 family port address, XOR-ed
// for §15.2 with the magic cookie and transaction ID.
func refEncAddr(canon net.IP, family byte, port int, xored bool, tid [12]byte) (v [20]byte, n int) {
	key := [16]byte{0x21, 0x12, 0xA4, 0x42}
	copy(key[4:], tid[:])
	v[0] = 0
	v[1] = family
	p := uint16(port)
	if xored {
		p ^= 0x2112
	}
	v[2] = byte(p >> 8)
	v[3] = byte(p)
	for i := 0; i < len(canon); i++ {
		b := canon[i]
		if xored {
			b ^= key[i]
		}
		v[4+i] = b
	}
	return v, 4 + len(canon)
}

func vxCheckAddrValue(val []byte, canon net.IP, family byte, port int, xored bool, tid [12]byte) {
	want, n := refEncAddr(canon, family, port, xored, tid)
	vxAssert(len(val) == n, "address attribute has the RFC length (8 or 20)")
	for i := 0; i < n && i < len(val); i++ {
		vxAssert(val[i] == want[i], "address attribute bytes are those of the RFC encoder")
	}
}

func vxCheckAddrResult(gotIP net.IP, gotPort int, canon net.IP, port int) {
	vxAssert(gotPort == port, "port round-trips")
	vxAssert(len(gotIP) == len(canon), "address family (length) round-trips")
	for i := 0; i < len(canon) && i < len(gotIP); i++ {
		vxAssert(gotIP[i] == canon[i], "address bytes round-trip")
	}
}

func vh_C06_xoraddr() {
	m := vxFreshMsg()
	ip, canon, family := vxAddr()
	port := vxLen(65535)
	a := XORMappedAddress{IP: ip, Port: port}
	t := AttrXORMappedAddress
	var err error
	if vxChoose(2) == 0 {
		err = a.AddTo(m)
	} else {
		t = AttrType(vxU16())
		vxAssume(t != 0x8020) // the decoder reports the legacy alias as 0x0020 (C02)
		err = a.AddToAs(m, t)
		vxReach("AddToAs")
	}
	vxAssert(err == nil, "valid address is accepted")
	vxAssert(len(m.Attributes) == 1, "one attribute added")
	vxAssert(m.Attributes[0].Type == t, "attribute has the requested type")
	vxCheckAddrValue(m.Attributes[0].Value, canon, family, port, true, m.TransactionID)
	d := vxRedecode(m)
	got := XORMappedAddress{IP: vxPrevIP(), Port: vxInt()}
	if t == AttrXORMappedAddress {
		err = got.GetFrom(d)
	} else {
		err = got.GetFromAs(d, t)
	}
	vxAssert(err == nil, "getter accepts what the setter wrote")
	vxCheckAddrResult(got.IP, got.Port, canon, port)
	vxReach("roundtrip")
}

// the library reads what an independent RFC encoder wrote
func vh_C06_xoraddr_ref() {
	m := vxFreshMsg()
	_, canon, family := vxAddr()
	port := vxLen(65535)
	v, n := refEncAddr(canon, family, port, true, m.TransactionID)
	m.Add(AttrXORMappedAddress, v[:n])
	d := vxRedecode(m)
	got := XORMappedAddress{IP: vxPrevIP(), Port: vxInt()}
	vxAssert(got.GetFrom(d) == nil, "getter accepts the RFC-encoded attribute")
	vxCheckAddrResult(got.IP, got.Port, canon, port)
	vxReach("ref-encoded")
}

func vh_C06_mappedaddr() {
	m := vxFreshMsg()
	ip, canon, family := vxAddr()
	port := vxLen(65535)
	which := vxChoose(4)
	var err error
	var t AttrType
	switch which {
	case 0:
		t, err = AttrMappedAddress, (&MappedAddress{IP: ip, Port: port}).AddTo(m)
	case 1:
		t, err = AttrAlternateServer, (&AlternateServer{IP: ip, Port: port}).AddTo(m)
	case 2:
		t, err = AttrResponseOrigin, (&ResponseOrigin{IP: ip, Port: port}).AddTo(m)
	default:
		t, err = AttrOtherAddress, (&OtherAddress{IP: ip, Port: port}).AddTo(m)
	}
	vxAssert(err == nil, "valid address is accepted")
	vxAssert(len(m.Attributes) == 1, "one attribute added")
	vxAssert(m.Attributes[0].Type == t, "attribute has the RFC type")
	vxCheckAddrValue(m.Attributes[0].Value, canon, family, port, false, m.TransactionID)
	d := vxRedecode(m)
	prev, pport := vxPrevIP(), vxInt()
	var gotIP net.IP
	var gotPort int
	switch which {
	case 0:
		g := MappedAddress{IP: prev, Port: pport}
		err = g.GetFrom(d)
		gotIP, gotPort = g.IP, g.Port
	case 1:
		g := AlternateServer{IP: prev, Port: pport}
		err = g.GetFrom(d)
		gotIP, gotPort = g.IP, g.Port
	case 2:
		g := ResponseOrigin{IP: prev, Port: pport}
		err = g.GetFrom(d)
		gotIP, gotPort = g.IP, g.Port
	default:
		g := OtherAddress{IP: prev, Port: pport}
		err = g.GetFrom(d)
		gotIP, gotPort = g.IP, g.Port
	}
	vxAssert(err == nil, "getter accepts what the setter wrote")
	vxCheckAddrResult(gotIP, gotPort, canon, port)
	vxReach("roundtrip")
}

func vh_C06_mappedaddr_ref() {
	m := vxFreshMsg()
	_, canon, family := vxAddr()
	port := vxLen(65535)
	v, n := refEncAddr(canon, family, port, false, m.TransactionID)
	t := AttrType(vxU16())
	vxAssume(t != 0x8020)
	m.Add(t, v[:n])
	d := vxRedecode(m)
	got := MappedAddress{IP: vxPrevIP(), Port: vxInt()}
	vxAssert(got.GetFromAs(d, t) == nil, "getter accepts the RFC-encoded attribute")
	vxCheckAddrResult(got.IP, got.Port, canon, port)
	vxReach("ref-encoded")
}

// text attributes: USERNAME, REALM, NONCE, SOFTWARE
func vh_C06_text() {
	m := vxFreshMsg()
	which := vxChoose(4)
	limit := [4]int{513, 763, 763, 763}[which]
	t := [4]AttrType{AttrUsername, AttrRealm, AttrNonce, AttrSoftware}[which]
	n := vxLen(limit)
	val := vxBytes(n, n)
	var err error
	switch which {
	case 0:
		err = Username(val).AddTo(m)
	case 1:
		err = Realm(val).AddTo(m)
	case 2:
		err = Nonce(val).AddTo(m)
	default:
		err = Software(val).AddTo(m)
	}
	vxAssert(err == nil, "text within the limit is accepted")
	vxAssert(len(m.Attributes) == 1, "one attribute added")
	vxAssert(m.Attributes[0].Type == t, "attribute has the RFC type")
	vxAssert(int(m.Attributes[0].Length) == n, "attribute length is the text length")
	w := vxWitness(n)
	if w < n {
		vxAssert(m.Raw[messageHeaderSize+attributeHeaderSize+w] == val[w], "the value on the wire is the text itself")
	}
	d := vxRedecode(m)
	var got []byte
	switch which {
	case 0:
		var g Username
		err = g.GetFrom(d)
		got = g
	case 1:
		var g Realm
		err = g.GetFrom(d)
		got = g
	case 2:
		var g Nonce
		err = g.GetFrom(d)
		got = g
	default:
		var g Software
		err = g.GetFrom(d)
		got = g
	}
	vxAssert(err == nil, "getter accepts what the setter wrote")
	vxAssert(len(got) == n, "text length round-trips")
	if w < n {
		vxAssert(got[w] == val[w], "text bytes round-trip")
	}
	if n == limit {
		vxReach("at-limit")
	}
	if n == 0 {
		vxReach("empty")
	}
	vxReach("roundtrip")
}

// ERROR-CODE with an explicit reason
func vh_C06_errorcode() {
	m := vxFreshMsg()
	code := vxInt()
	vxAssume(300 <= code)
	vxAssume(code <= 699)
	n := vxLen(763)
	reason := vxBytes(n, n)
	err := ErrorCodeAttribute{Code: ErrorCode(code), Reason: reason}.AddTo(m)
	vxAssert(err == nil, "code 300..699 with a reason within the limit is accepted")
	vxAssert(len(m.Attributes) == 1, "one attribute added")
	a := m.Attributes[0]
	vxAssert(a.Type == AttrErrorCode, "attribute has the RFC type")
	vxAssert(len(a.Value) == 4+n, "value is 4 bytes + reason")
	// RFC 5389 §15.6: 21 reserved zero bits, 3-bit class (hundreds), 8-bit number (code mod 100)
	vxAssert(a.Value[0] == 0, "reserved byte 0 is zero")
	vxAssert(a.Value[1] == 0, "reserved byte 1 is zero")
	vxAssert(int(a.Value[2])*100+int(a.Value[3]) == code, "class*100+number is the code")
	vxAssert(a.Value[2] >= 3, "class is the hundreds digit (>=3)")
	vxAssert(a.Value[2] <= 6, "class is the hundreds digit (<=6)")
	vxAssert(a.Value[3] <= 99, "number is code modulo 100")
	w := vxWitness(n)
	if w < n {
		vxAssert(a.Value[4+w] == reason[w], "reason phrase follows")
	}
	d := vxRedecode(m)
	var got ErrorCodeAttribute
	got.Code = ErrorCode(vxInt())
	vxAssert(got.GetFrom(d) == nil, "getter accepts what the setter wrote")
	vxAssert(int(got.Code) == code, "code round-trips")
	vxAssert(len(got.Reason) == n, "reason length round-trips")
	if w < n {
		vxAssert(got.Reason[w] == reason[w], "reason bytes round-trip")
	}
	vxReach("roundtrip")
}

// ErrorCode.AddTo (default reasons)
func vh_C06_errorcode_default() {
	m := vxFreshMsg()
	code := vxInt()
	vxAssume(300 <= code)
	vxAssume(code <= 699)
	err := ErrorCode(code).AddTo(m)
	if err != nil {
		vxReach("no-default-reason")
		return
	}
	d := vxRedecode(m)
	var got ErrorCodeAttribute
	vxAssert(got.GetFrom(d) == nil, "getter accepts what the setter wrote")
	vxAssert(int(got.Code) == code, "code round-trips")
	vxAssert(len(got.Reason) > 0, "default reason is present")
	vxReach("roundtrip")
}

// UNKNOWN-ATTRIBUTES: list of 16-bit types
func vh_C06_unknownattrs() {
	m := vxFreshMsg()
	n := vxChoose(vxK(5, 24))
	list := make(UnknownAttributes, n)
	for i := range list {
		list[i] = AttrType(vxU16())
	}
	vxAssert(list.AddTo(m) == nil, "any list is accepted")
	vxAssert(len(m.Attributes) == 1, "one attribute added")
	a := m.Attributes[0]
	vxAssert(a.Type == AttrUnknownAttributes, "attribute has the RFC type")
	// RFC 5389 §15.9: a list of 16-bit values
	vxAssert(len(a.Value) == 2*n, "value is a list of 16-bit entries")
	for i := 0; i < n && 2*i+1 < len(a.Value); i++ {
		vxAssert(uint16(a.Value[2*i])<<8|uint16(a.Value[2*i+1]) == uint16(list[i]), "entry i is the i-th type, big endian")
	}
	d := vxRedecode(m)
	var got UnknownAttributes
	if vxChoose(2) == 1 {
		got = make(UnknownAttributes, 3, 4) // recycled destination
	}
	vxAssert(got.GetFrom(d) == nil, "getter accepts what the setter wrote")
	vxAssert(len(got) == n, "list length round-trips")
	for i := 0; i < n && i < len(got); i++ {
		vxAssert(got[i] == list[i], "entries round-trip")
	}
	vxReach("roundtrip")
}

// the library reads an RFC-encoded UNKNOWN-ATTRIBUTES list
func vh_C06_unknownattrs_ref() {
	m := vxFreshMsg()
	n := vxChoose(vxK(5, 12))
	v := make([]byte, 2*n)
	list := make([]uint16, n)
	for i := range list {
		list[i] = vxU16()
		v[2*i] = byte(list[i] >> 8)
		v[2*i+1] = byte(list[i])
	}
	m.Add(AttrUnknownAttributes, v)
	d := vxRedecode(m)
	var got UnknownAttributes
	vxAssert(got.GetFrom(d) == nil, "getter accepts the RFC-encoded list")
	vxAssert(len(got) == n, "RFC-encoded list length is read back")
	for i := 0; i < n && i < len(got); i++ {
		vxAssert(uint16(got[i]) == list[i], "RFC-encoded entries are read back")
	}
	vxReach("ref-encoded")
}

func vh_C06_selftest() {
	m := vxFreshMsg()
	ip := net.IP(vxBytes(4, 4))
	a := XORMappedAddress{IP: ip, Port: 80}
	vxAssert(a.AddTo(m) == nil, "ok")
	vxAssert(m.Attributes[0].Value[4] == ip[0], "selftest: deliberately false (address is XOR-ed)")
}
