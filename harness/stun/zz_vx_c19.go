package stun

// C19 — message type encoding is the RFC 5389 figure-3 layout and a bijection.
// Oracle: bit-by-bit placement written from the figure, independent of the
// implementation's mask/shift constants.

// refTypeBits: position in the 16-bit type field of method bit i (M0..M11).
var refMethodPos = [12]uint{0, 1, 2, 3, 5, 6, 7, 9, 10, 11, 12, 13}

const (
	refC0Pos = 4
	refC1Pos = 8
)

func refTypeValue(method uint16, class uint8) uint16 {
	var v uint16
	for i := uint(0); i < 12; i++ {
		v |= ((method >> i) & 1) << refMethodPos[i]
	}
	v |= uint16(class&1) << refC0Pos
	v |= uint16((class>>1)&1) << refC1Pos
	return v
}

func refTypeMethod(v uint16) uint16 {
	var m uint16
	for i := uint(0); i < 12; i++ {
		m |= ((v >> refMethodPos[i]) & 1) << i
	}
	return m
}

func refTypeClass(v uint16) uint8 {
	return uint8((v>>refC0Pos)&1) | uint8((v>>refC1Pos)&1)<<1
}

// Value() on the complete (method, class) domain.
func vh_C19_value() {
	method, class := vxU16(), vxU8()
	vxAssume(method <= 0xFFF)
	vxAssume(class <= 3)
	t := MessageType{Method: Method(method), Class: MessageClass(class)}
	v := t.Value()
	vxReach("value")
	vxAssert(v == refTypeValue(method, class), "Value() is the figure-3 layout")
	vxAssert(v>>14 == 0, "two leading bits are zero")
	var back MessageType
	back.ReadValue(v)
	vxAssert(uint16(back.Method) == method, "ReadValue(Value(t)).Method == t.Method")
	vxAssert(uint8(back.Class) == class, "ReadValue(Value(t)).Class == t.Class")
	vxAssert(NewType(Method(method), MessageClass(class)) == t, "NewType builds the same type")
}

// ReadValue() on all 65536 wire values.
func vh_C19_readvalue() {
	v := vxU16()
	var t MessageType
	t.ReadValue(v)
	vxReach("readvalue")
	vxAssert(uint16(t.Method) == refTypeMethod(v), "ReadValue method bits per figure 3")
	vxAssert(uint8(t.Class) == refTypeClass(v), "ReadValue class bits per figure 3")
	vxAssert(uint16(t.Method) <= 0xFFF, "decoded method fits 12 bits")
	vxAssert(uint8(t.Class) <= 3, "decoded class fits 2 bits")
	vxAssert(t.Value() == v&0x3FFF, "Value(ReadValue(v)) == low 14 bits of v")
}

// Reachability twin (must come back violated).
func vh_C19_selftest() {
	v := vxU16()
	var t MessageType
	t.ReadValue(v)
	vxAssert(t.Value() != 0x0101, "selftest: deliberately false")
}
