package stun

// C20 — hot paths allocate nothing in steady state, whatever the message.
//
// Shape of every harness: build an arbitrary pre-state, run the operation once
// un-measured (the "has been used for a message at least as large" of the
// property), then run it again inside vxAllocs and assert that the measured run
// raised no heap-allocation event whenever it succeeded.
//
// Symbolically vxAllocs(f) executes f once and counts the allocation sites the
// path executes: which source sites allocate on the heap is taken from the real
// compiler's escape analysis (go build -gcflags=-m, regenerated on every run),
// which of them are reached for some input is what the solver decides; appends
// that outgrow their capacity always count.  Natively (replay) vxAllocs is
// testing.AllocsPerRun's measurement (runtime mallocs over 10 runs).

// decoding: Write (copy + Decode) into a Message that already held the same bytes
func vh_C20_decode() {
	vxUnwind(vxK(2, 3), true)
	buf := vxRawBuf()
	m := vxStaleMessage()
	if vxChoose(2) == 1 {
		m.Raw = vxBytes(0, vxLen(40)) // a buffer left by an earlier, smaller use
		vxReach("stale-raw")
	}
	if _, err := m.Write(buf); err != nil {
		return
	}
	vxReach("warmed")
	if len(m.Attributes) >= 2 {
		vxReach("two-attributes")
	}
	var err error
	n := vxAllocs(func() { _, err = m.Write(buf) })
	vxAssert(err == nil, "decoding the same bytes again succeeds")
	vxAssert(n == 0, "decoding into a warmed Message allocates nothing")
}

// decoding a message that is no larger (fewer or equal bytes, fewer or equal attributes) than the one that warmed the Message
func vh_C20_decode_smaller() {
	vxUnwind(vxK(1, 2), true)
	big := vxRawBuf()
	m := new(Message)
	if _, err := m.Write(big); err != nil {
		return
	}
	nbig := len(m.Attributes)
	small := vxRawBuf()
	vxAssume(len(small) <= len(big))
	d := &Message{Raw: small}
	if d.Decode() != nil {
		return
	}
	vxAssume(len(d.Attributes) <= nbig)
	vxReach("warmed")
	var err error
	n := vxAllocs(func() { _, err = m.Write(small) })
	vxAssert(err == nil, "the smaller message decodes")
	vxAssert(n == 0, "decoding a message no larger than an earlier one allocates nothing")
}

// a Message that alternates between a larger and a smaller message keeps what the larger one needed
func vh_C20_decode_alternating() {
	vxUnwind(vxK(1, 2), true)
	big := vxRawBuf()
	m := new(Message)
	if _, err := m.Write(big); err != nil {
		return
	}
	nbig := len(m.Attributes)
	small := vxRawBuf()
	vxAssume(len(small) <= len(big))
	if _, err := m.Write(small); err != nil {
		return
	}
	vxAssume(len(m.Attributes) <= nbig)
	vxReach("warmed")
	if len(m.Attributes) < nbig {
		vxReach("fewer-attributes")
	}
	var err error
	n := vxAllocs(func() { _, err = m.Write(big) })
	vxAssert(err == nil, "the larger message decodes again")
	vxAssert(n == 0, "decoding the larger message again, after a smaller one, allocates nothing")
}

// Decode / ReadFrom-less variant: the caller refills Raw in place and calls Decode
func vh_C20_decode_inplace() {
	vxUnwind(vxK(2, 3), true)
	buf := vxRawBuf()
	m := vxStaleMessage()
	m.Raw = append(m.Raw[:0], buf...)
	if m.Decode() != nil {
		return
	}
	vxReach("warmed")
	var err error
	n := vxAllocs(func() {
		m.Raw = append(m.Raw[:0], buf...)
		err = m.Decode()
	})
	vxAssert(err == nil, "decoding the same bytes again succeeds")
	vxAssert(n == 0, "refilling Raw and decoding allocates nothing")
}

// attribute lookup on any decoded message
func vh_C20_lookup() {
	m, _, ok := vxDecoded(vxK(2, 3))
	if !ok {
		return
	}
	t := AttrType(vxU16())
	var (
		v     []byte
		err   error
		found bool
	)
	n := vxAllocs(func() {
		v, err = m.Get(t)
		found = m.Contains(t)
	})
	vxAssert(found == (err == nil), "Get and Contains agree")
	if err == nil {
		vxReach("found")
		vxAssert(len(v) >= 0, "value returned")
	} else {
		vxReach("not-found")
	}
	vxAssert(n == 0, "looking up an attribute allocates nothing (found or not)")
}

// vxC20Getter runs getter g twice on m: once to warm the destination, once measured.
func vxC20Getter(m *Message, g Getter, what string) {
	if g.GetFrom(m) != nil {
		return
	}
	vxReach("got-" + what)
	var err error
	n := vxAllocs(func() { err = g.GetFrom(m) })
	vxAssert(err == nil, what+": the getter succeeds again")
	vxAssert(n == 0, what+": a warmed getter allocates nothing")
}

// typed getters on any decoded message, destinations in any earlier state
func vh_C20_getters() {
	m, _, ok := vxDecoded(vxK(1, 2))
	if !ok {
		return
	}
	switch vxChoose(9) {
	case 0:
		u := Username(vxBytes(0, vxLen(8)))
		vxC20Getter(m, &u, "USERNAME")
	case 1:
		r := Realm(vxBytes(0, vxLen(8)))
		vxC20Getter(m, &r, "REALM")
	case 2:
		x := Nonce(vxBytes(0, vxLen(8)))
		vxC20Getter(m, &x, "NONCE")
	case 3:
		s := Software(vxBytes(0, vxLen(8)))
		vxC20Getter(m, &s, "SOFTWARE")
	case 4:
		a := &XORMappedAddress{IP: vxPrevIP(), Port: vxInt()}
		vxC20Getter(m, a, "XOR-MAPPED-ADDRESS")
	case 5:
		a := &MappedAddress{IP: vxPrevIP(), Port: vxInt()}
		vxC20Getter(m, a, "MAPPED-ADDRESS")
	case 6:
		switch vxChoose(3) {
		case 0:
			vxC20Getter(m, &AlternateServer{IP: vxPrevIP()}, "ALTERNATE-SERVER")
		case 1:
			vxC20Getter(m, &ResponseOrigin{IP: vxPrevIP()}, "RESPONSE-ORIGIN")
		default:
			vxC20Getter(m, &OtherAddress{IP: vxPrevIP()}, "OTHER-ADDRESS")
		}
	case 7:
		vxC20Getter(m, &ErrorCodeAttribute{Code: ErrorCode(vxInt()), Reason: vxBytes(0, vxLen(8))}, "ERROR-CODE")
	default:
		var u UnknownAttributes
		if vxChoose(2) == 1 {
			u = make(UnknownAttributes, 1, 2)
		}
		vxUnwind(8, true) // at most 8 attribute types listed
		vxC20Getter(m, &u, "UNKNOWN-ATTRIBUTES")
	}
}

// XOR-MAPPED-ADDRESS under any attribute type (GetFromAs), e.g. XOR-PEER-ADDRESS / XOR-RELAYED-ADDRESS
func vh_C20_getfromas() {
	m, _, ok := vxDecoded(1)
	if !ok {
		return
	}
	t := AttrType(vxU16())
	a := &XORMappedAddress{IP: vxPrevIP()}
	b := &MappedAddress{IP: vxPrevIP()}
	if a.GetFromAs(m, t) != nil || b.GetFromAs(m, t) != nil {
		return
	}
	vxReach("warmed")
	var e1, e2 error
	n := vxAllocs(func() {
		e1 = a.GetFromAs(m, t)
		e2 = b.GetFromAs(m, t)
	})
	vxAssert(e1 == nil && e2 == nil, "the getters succeed again")
	vxAssert(n == 0, "address getters under any attribute type allocate nothing once warmed")
}

// vxC20Signed: the wire bytes of a library-built message with up to k attributes of arbitrary type,
// content and length 0..5 (every padding residue), then signed with an arbitrary key and/or
// fingerprinted by the library, in a buffer with spare capacity 0, 4, 19, 20 or 64.  Sizes are
// enumerated by vxChoose so that every buffer capacity is concrete and the runtime's size-class
// growth is modelled exactly; contents, types and the key stay symbolic.  Building the message with
// the library (rather than assuming a digest) makes every counterexample replayable with the real
// HMAC and CRC.
func vxC20Signed(k int, sign, fp bool) ([]byte, MessageIntegrity) {
	src := vxFreshMsg()
	for j := vxChoose(k + 1); j > 0; j-- {
		t := AttrType(vxU16())
		vxAssume(t != AttrFingerprint && t != AttrMessageIntegrity)
		n := vxChoose(6)
		src.Add(t, vxBytes(n, n))
	}
	key := MessageIntegrity(vxKey())
	if sign {
		vxAssert(key.AddTo(src) == nil, "signing succeeds")
	}
	if fp {
		vxAssert(Fingerprint.AddTo(src) == nil, "fingerprinting succeeds")
	}
	spare := [5]int{0, 4, 19, 20, 64}[vxChoose(5)]
	buf := vxBytes(len(src.Raw), len(src.Raw)+spare)
	copy(buf, src.Raw)
	return buf, key
}

// FINGERPRINT and MESSAGE-INTEGRITY checks on any signed message, with any spare capacity
func vh_C20_checks() {
	sign, fp := true, true
	switch vxChoose(3) {
	case 0:
		fp = false
	case 1:
		sign = false
	}
	buf, key := vxC20Signed(vxK(1, 2), sign, fp)
	m := new(Message)
	if vxChoose(2) == 0 {
		// the common receive path: Write copies into the message's own buffer
		if _, err := m.Write(buf); err != nil {
			return
		}
		vxReach("own-buffer")
	} else {
		// the caller's buffer used in place: capacity is whatever the caller had
		m.Raw = buf
		if m.Decode() != nil {
			return
		}
		vxReach("callers-buffer")
	}
	if fp {
		vxAssert(Fingerprint.Check(m) == nil, "the library's FINGERPRINT verifies")
		vxReach("fingerprint-ok")
		var err error
		n := vxAllocs(func() { err = Fingerprint.Check(m) })
		vxAssert(err == nil, "FINGERPRINT verifies again")
		vxAssert(n == 0, "a passing FINGERPRINT check allocates nothing")
	}
	if sign {
		vxAssert(key.Check(m) == nil, "the library's MESSAGE-INTEGRITY verifies")
		vxReach("integrity-ok")
		var err error
		n := vxAllocs(func() { err = key.Check(m) })
		vxAssert(err == nil, "MESSAGE-INTEGRITY verifies again")
		vxAssert(n == 0, "a passing MESSAGE-INTEGRITY check allocates nothing once the Message is warm")
	}
}

// decode + check, the receive loop of a server: every datagram is written into the same Message and verified
func vh_C20_receive_loop() {
	fp := vxBool()
	buf, key := vxC20Signed(1, true, fp)
	m := new(Message)
	step := func() error {
		if _, err := m.Write(buf); err != nil {
			return err
		}
		if fp {
			if err := Fingerprint.Check(m); err != nil {
				return err
			}
		}
		return key.Check(m)
	}
	vxAssert(step() == nil, "the datagram decodes and verifies")
	vxReach("warmed")
	var err error
	n := vxAllocs(func() { err = step() })
	vxAssert(err == nil, "the datagram verifies again")
	vxAssert(n == 0, "decode + checks of a repeated datagram allocate nothing")
}

// rebuilding with pointer setters: Build resets the Message and re-adds every attribute
func vh_C20_build() {
	m := new(Message)
	if vxChoose(2) == 1 {
		m = vxStaleMessage()
	}
	// attribute sizes are enumerated (every padding residue occurs), contents are symbolic
	ul := [4]int{0, 1, 6, 8}[vxChoose(4)]
	username := Username(vxBytes(ul, ul))
	rl := 3 + vxChoose(2)
	realm := Realm(vxBytes(rl, rl))
	nonce := Nonce(vxBytes(2, 2))
	software := Software(vxBytes(7, 7))
	var ip []byte
	if vxBool() {
		ip = vxBytes(4, 4)
	} else {
		ip = vxBytes(16, 16)
	}
	addr := &XORMappedAddress{IP: ip, Port: int(vxU16())}
	el := 5 * vxChoose(2)
	code := &ErrorCodeAttribute{Code: ErrorCode(vxU16()), Reason: vxBytes(el, el)}
	unk := &UnknownAttributes{AttrType(vxU16()), AttrType(vxU16())}
	kl := 16 * vxChoose(2)
	integrity := MessageIntegrity(vxBytes(kl, kl))
	tid := NewTransactionIDSetter(vxID())
	var setters []Setter
	switch vxChoose(4) {
	case 0:
		setters = []Setter{BindingRequest, tid, &username, &realm, &nonce, &integrity, Fingerprint}
	case 1:
		setters = []Setter{BindingSuccess, tid, &software, addr, &integrity, Fingerprint}
	case 2:
		setters = []Setter{BindingError, tid, code, unk, &software, Fingerprint}
	default:
		setters = []Setter{BindingRequest, tid, &username, &integrity}
	}
	if m.Build(setters...) != nil {
		return
	}
	vxReach("built")
	var err error
	n := vxAllocs(func() { err = m.Build(setters...) })
	vxAssert(err == nil, "rebuilding succeeds")
	vxAssert(n == 0, "rebuilding a warmed Message with pointer setters allocates nothing")
}

// Add of one attribute of any length on a reset Message (the growth boundary of Message.grow)
func vh_C20_add() {
	m := new(Message)
	if vxChoose(2) == 1 {
		m = New()
		vxReach("new")
	}
	t := AttrType(vxU16())
	n := vxLen(vxK(300, 2000))
	v := vxBytes(n, n)
	build := func() {
		m.Reset()
		m.WriteHeader()
		m.Add(t, v)
	}
	build()
	vxReach("warmed")
	a := vxAllocs(build)
	vxAssert(a == 0, "re-adding an attribute of the same length to a reset Message allocates nothing")
}

// reachability twin: a deliberately allocating operation must be reported
func vh_C20_selftest() {
	m, _, ok := vxDecoded(1)
	if !ok {
		return
	}
	var c *Message
	n := vxAllocs(func() {
		c = new(Message)
		m.CloneTo(c) //nolint:errcheck
	})
	vxAssert(n == 0 || c == nil, "selftest: deliberately false (cloning into a fresh Message allocates)")
}
