package stun

// C20 — hot paths allocate nothing in steady state, whatever the message.
//
// Shape of every harness: build an arbitrary pre-state, run the operation once
// un-measured (the "has been used for a message at least as large" of the
// property), then run it again inside vxAllocs and assert that the measured run
// raised no heap-allocation event whenever it succeeded.
//
// Symbolically vxAllocs(f) executes f once and counts the allocation sites the
// path executes: which source sites allocate on the heap is taken from the real
// compiler's escape analysis (go build -gcflags=-m, regenerated on every run),
// which of them are reached for some input is what the solver decides; appends
// that outgrow their capacity always count.  Natively (replay) vxAllocs is
// testing.AllocsPerRun's measurement (runtime mallocs over 10 runs).

// decoding: Write (copy + Decode) into a Message that already held the same bytes
func vh_C20_decode() {
	vxUnwind(vxK(2, 3), true)
	buf := vxRawBuf()
	m := vxStaleMessage()
	if vxChoose(2) == 1 {
		m.Raw = vxBytes(0, vxLen(40)) // a buffer left by an earlier, smaller use
		vxReach("stale-raw")
	}
	if _, err := m.Write(buf); err != nil {
		return
	}
	vxReach("warmed")
	if len(m.Attributes) >= 2 {
		vxReach("two-attributes")
	}
	var err error
	n := vxAllocs(func() { _, err = m.Write(buf) })
	vxAssert(err == nil, "decoding the same bytes again succeeds")
	vxAssert(n == 0, "decoding into a warmed Message allocates nothing")
}

// decoding a message that is no larger (fewer or equal bytes, fewer or equal attributes) than the one that warmed the Message
func vh_C20_decode_smaller() {
	vxUnwind(vxK(1, 2), true)
	big := vxRawBuf()
	m := new(Message)
	if _, err := m.Write(big); err != nil {
		return
	}
	nbig := len(m.Attributes)
	small := vxRawBuf()
	vxAssume(len(small) <= len(big))
	d := &Message{Raw: small}
	if d.Decode() != nil {
		return
	}
	vxAssume(len(d.Attributes) <= nbig)
	vxReach("warmed")
	var err error
	n := vxAllocs(func() { _, err = m.Write(small) })
	vxAssert(err == nil, "the smaller message decodes")
	vxAssert(n == 0, "decoding a message no larger than an earlier one allocates nothing")
}

// a Message that alternates between a larger and a smaller message keeps what the larger one needed
func vh_C20_decode_alternating() {
	vxUnwind(vxK(1, 2), true)
	big := vxRawBuf()
	m := new(Message)
	if _, err := m.Write(big); err != nil {
		return
	}
	nbig := len(m.Attributes)
	small := vxRawBuf()
	vxAssume(len(small) <= len(big))
	if _, err := m.Write(small); err != nil {
		return
	}
	vxAssume(len(m.Attributes) <= nbig)
	vxReach("warmed")
	if len(m.Attributes) < nbig {
		vxReach("fewer-attributes")
	}
	var err error
	n := vxAllocs(func() { _, err = m.Write(big) })
	vxAssert(err == nil, "the larger message decodes again")
	vxAssert(n == 0, "decoding the larger message again, after a smaller one, allocates nothing")
}

// Decode / ReadFrom-less variant: the caller refills Raw in place and calls Decode
func vh_C20_decode_inplace() {
	vxUnwind(vxK(2, 3), true)
	buf := vxRawBuf()
	m := vxStaleMessage()
	m.Raw = append(m.Raw[:0], buf...)
	if m.Decode() != nil {
		return
	}
	vxReach("warmed")
	var err error
	n := vxAllocs(func() {
		m.Raw = append(m.Raw[:0], buf...)
		err = m.Decode()
	})
	vxAssert(err == nil, "decoding the same bytes again succeeds")
	vxAssert(n == 0, "refilling Raw and decoding allocates nothing")
}

// attribute lookup on any decoded message
func vh_C20_lookup() {
	m, _, ok := vxDecoded(vxK(2, 3))
	if !ok {
		return
	}
	t := AttrType(vxU16())
	var (
		v     []byte
		err   error
		found bool
	)
	n := vxAllocs(func() {
		v, err = m.Get(t)
		found = m.Contains(t)
	})
	vxAssert(found == (err == nil), "Get and Contains agree")
	if err == nil {
		vxReach("found")
		vxAssert(len(v) >= 0, "value returned")
	} else {
		vxReach("not-found")
	}
	vxAssert(n == 0, "looking up an attribute allocates nothing (found or not)")
}

// vxC20Getter runs getter g twice on m: once to warm the destination, once measured.
func vxC20Getter(m *Message, g Getter, what string) {
	if g.GetFrom(m) != nil {
		return
	}
	vxReach("got-" + what)
	var err error
	n := vxAllocs(func() { err = g.GetFrom(m) })
	vxAssert(err == nil, what+": the getter succeeds again")
	vxAssert(n == 0, what+": a warmed getter allocates nothing")
}

// typed getters on any decoded message, destinations in any earlier state
func vh_C20_getters() {
	m, _, ok := vxDecoded(vxK(1, 2))
	if !ok {
		return
	}
	switch vxChoose(9) {
	case 0:
		u := Username(vxBytes(0, vxLen(8)))
		vxC20Getter(m, &u, "USERNAME")
	case 1:
		r := Realm(vxBytes(0, vxLen(8)))
		vxC20Getter(m, &r, "REALM")
	case 2:
		x := Nonce(vxBytes(0, vxLen(8)))
		vxC20Getter(m, &x, "NONCE")
	case 3:
		s := Software(vxBytes(0, vxLen(8)))
		vxC20Getter(m, &s, "SOFTWARE")
	case 4:
		a := &XORMappedAddress{IP: vxPrevIP(), Port: vxInt()}
		vxC20Getter(m, a, "XOR-MAPPED-ADDRESS")
	case 5:
		a := &MappedAddress{IP: vxPrevIP(), Port: vxInt()}
		vxC20Getter(m, a, "MAPPED-ADDRESS")
	case 6:
		switch vxChoose(3) {
		case 0:
			vxC20Getter(m, &AlternateServer{IP: vxPrevIP()}, "ALTERNATE-SERVER")
		case 1:
			vxC20Getter(m, &ResponseOrigin{IP: vxPrevIP()}, "RESPONSE-ORIGIN")
		default:
			vxC20Getter(m, &OtherAddress{IP: vxPrevIP()}, "OTHER-ADDRESS")
		}
	case 7:
		vxC20Getter(m, &ErrorCodeAttribute{Code: ErrorCode(vxInt()), Reason: vxBytes(0, vxLen(8))}, "ERROR-CODE")
	default:
		var u UnknownAttributes
		if vxChoose(2) == 1 {
			u = make(UnknownAttributes, 1, 2)
		}
		vxUnwind(8, true) // at most 8 attribute types listed
		vxC20Getter(m, &u, "UNKNOWN-ATTRIBUTES")
	}
}

// address getters with a destination that alternates between messages: a destination that has
// held the larger address keeps what it needs when a smaller one was decoded in between
func vh_C20_getters_alternating() {
	ma, _, ok := vxDecoded(1)
	if !ok {
		return
	}
	mb, _, ok := vxDecoded(1)
	if !ok {
		return
	}
	t := AttrType(vxU16())
	switch vxChoose(2) {
	case 0:
		a := &XORMappedAddress{IP: vxPrevIP()}
		if a.GetFromAs(ma, t) != nil {
			return
		}
		la := len(a.IP)
		if a.GetFromAs(mb, t) != nil {
			return
		}
		vxAssume(len(a.IP) <= la) // B's address is no larger than A's
		if len(a.IP) < la {
			vxReach("xor-smaller-in-between")
		}
		var err error
		n := vxAllocs(func() { err = a.GetFromAs(ma, t) })
		vxAssert(err == nil, "XOR address: the getter succeeds again")
		vxAssert(n == 0, "XOR address: decoding the larger address again, after a smaller one, allocates nothing")
	default:
		a := &MappedAddress{IP: vxPrevIP()}
		if a.GetFromAs(ma, t) != nil {
			return
		}
		la := len(a.IP)
		if a.GetFromAs(mb, t) != nil {
			return
		}
		vxAssume(len(a.IP) <= la)
		if len(a.IP) < la {
			vxReach("mapped-smaller-in-between")
		}
		var err error
		n := vxAllocs(func() { err = a.GetFromAs(ma, t) })
		vxAssert(err == nil, "address: the getter succeeds again")
		vxAssert(n == 0, "address: decoding the larger address again, after a smaller one, allocates nothing")
	}
}

// UNKNOWN-ATTRIBUTES destination alternating between a longer and a shorter list
func vh_C20_unknown_alternating() {
	ma, _, ok := vxDecoded(1)
	if !ok {
		return
	}
	mb, _, ok := vxDecoded(1)
	if !ok {
		return
	}
	vxUnwind(6, true) // lists of at most 6 types
	var u UnknownAttributes
	if u.GetFrom(ma) != nil {
		return
	}
	la := len(u)
	if u.GetFrom(mb) != nil {
		return
	}
	vxAssume(len(u) <= la)
	if len(u) < la {
		vxReach("shorter-in-between")
	}
	var err error
	n := vxAllocs(func() { err = u.GetFrom(ma) })
	vxAssert(err == nil, "the getter succeeds again")
	vxAssert(n == 0, "decoding the longer UNKNOWN-ATTRIBUTES list again, after a shorter one, allocates nothing")
}

// XOR-MAPPED-ADDRESS under any attribute type (GetFromAs), e.g. XOR-PEER-ADDRESS / XOR-RELAYED-ADDRESS
func vh_C20_getfromas() {
	m, _, ok := vxDecoded(1)
	if !ok {
		return
	}
	t := AttrType(vxU16())
	a := &XORMappedAddress{IP: vxPrevIP()}
	b := &MappedAddress{IP: vxPrevIP()}
	if a.GetFromAs(m, t) != nil || b.GetFromAs(m, t) != nil {
		return
	}
	vxReach("warmed")
	var e1, e2 error
	n := vxAllocs(func() {
		e1 = a.GetFromAs(m, t)
		e2 = b.GetFromAs(m, t)
	})
	vxAssert(e1 == nil && e2 == nil, "the getters succeed again")
	vxAssert(n == 0, "address getters under any attribute type allocate nothing once warmed")
}

// vxC20Signed: the wire bytes of a library-built message with up to k attributes of arbitrary type,
// content and length 0..5 (every padding residue), then signed with an arbitrary key and/or
// fingerprinted by the library, in a buffer with spare capacity 0, 4, 19, 20 or 64.  Sizes are
// enumerated by vxChoose so that every buffer capacity is concrete and the runtime's size-class
// growth is modelled exactly; contents, types and the key stay symbolic.  Building the message with
// the library (rather than assuming a digest) makes every counterexample replayable with the real
// HMAC and CRC.
func vxC20Signed(k int, sign, fp bool) ([]byte, MessageIntegrity) {
	src := vxFreshMsg()
	for j := vxChoose(k + 1); j > 0; j-- {
		t := AttrType(vxU16())
		vxAssume(t != AttrFingerprint && t != AttrMessageIntegrity)
		n := vxChoose(6)
		src.Add(t, vxBytes(n, n))
	}
	key := MessageIntegrity(vxKey())
	if sign {
		vxAssert(key.AddTo(src) == nil, "signing succeeds")
	}
	if fp {
		vxAssert(Fingerprint.AddTo(src) == nil, "fingerprinting succeeds")
	}
	spare := [5]int{0, 4, 19, 20, 64}[vxChoose(5)]
	buf := vxBytes(len(src.Raw), len(src.Raw)+spare)
	copy(buf, src.Raw)
	return buf, key
}

// FINGERPRINT and MESSAGE-INTEGRITY checks on any signed message, with any spare capacity
func vh_C20_checks() {
	sign, fp := true, true
	switch vxChoose(3) {
	case 0:
		fp = false
	case 1:
		sign = false
	}
	buf, key := vxC20Signed(vxK(1, 2), sign, fp)
	m := new(Message)
	if vxChoose(2) == 0 {
		// the common receive path: Write copies into the message's own buffer
		if _, err := m.Write(buf); err != nil {
			return
		}
		vxReach("own-buffer")
	} else {
		// the caller's buffer used in place: capacity is whatever the caller had
		m.Raw = buf
		if m.Decode() != nil {
			return
		}
		vxReach("callers-buffer")
	}
	if fp {
		vxAssert(Fingerprint.Check(m) == nil, "the library's FINGERPRINT verifies")
		vxReach("fingerprint-ok")
		var err error
		n := vxAllocs(func() { err = Fingerprint.Check(m) })
		vxAssert(err == nil, "FINGERPRINT verifies again")
		vxAssert(n == 0, "a passing FINGERPRINT check allocates nothing")
	}
	if sign {
		vxAssert(key.Check(m) == nil, "the library's MESSAGE-INTEGRITY verifies")
		vxReach("integrity-ok")
		var err error
		n := vxAllocs(func() { err = key.Check(m) })
		vxAssert(err == nil, "MESSAGE-INTEGRITY verifies again")
		vxAssert(n == 0, "a passing MESSAGE-INTEGRITY check allocates nothing once the Message is warm")
	}
}

// decode + check, the receive loop of a server: every datagram is written into the same Message and verified
func vh_C20_receive_loop() {
	fp := vxBool()
	buf, key := vxC20Signed(1, true, fp)
	m := new(Message)
	step := func() error {
		if _, err := m.Write(buf); err != nil {
			return err
		}
		if fp {
			if err := Fingerprint.Check(m); err != nil {
				return err
			}
		}
		return key.Check(m)
	}
	vxAssert(step() == nil, "the datagram decodes and verifies")
	vxReach("warmed")
	var err error
	n := vxAllocs(func() { err = step() })
	vxAssert(err == nil, "the datagram verifies again")
	vxAssert(n == 0, "decode + checks of a repeated datagram allocate nothing")
}

// rebuilding with pointer setters: Build resets the Message and re-adds every attribute
func vh_C20_build() {
	m := new(Message)
	if vxChoose(2) == 1 {
		m = vxStaleMessage()
	}
	// attribute sizes are enumerated (every padding residue occurs), contents are symbolic
	ul := [4]int{0, 1, 6, 8}[vxChoose(4)]
	username := Username(vxBytes(ul, ul))
	rl := 3 + vxChoose(2)
	realm := Realm(vxBytes(rl, rl))
	nonce := Nonce(vxBytes(2, 2))
	software := Software(vxBytes(7, 7))
	var ip []byte
	if vxBool() {
		ip = vxBytes(4, 4)
	} else {
		ip = vxBytes(16, 16)
	}
	addr := &XORMappedAddress{IP: ip, Port: int(vxU16())}
	el := 5 * vxChoose(2)
	code := &ErrorCodeAttribute{Code: ErrorCode(vxU16()), Reason: vxBytes(el, el)}
	unk := &UnknownAttributes{AttrType(vxU16()), AttrType(vxU16())}
	kl := 16 * vxChoose(2)
	integrity := MessageIntegrity(vxBytes(kl, kl))
	tid := NewTransactionIDSetter(vxID())
	var setters []Setter
	switch vxChoose(4) {
	case 0:
		setters = []Setter{BindingRequest, tid, &username, &realm, &nonce, &integrity, Fingerprint}
	case 1:
		setters = []Setter{BindingSuccess, tid, &software, addr, &integrity, Fingerprint}
	case 2:
		setters = []Setter{BindingError, tid, code, unk, &software, Fingerprint}
	default:
		setters = []Setter{BindingRequest, tid, &username, &integrity}
	}
	if m.Build(setters...) != nil {
		return
	}
	vxReach("built")
	var err error
	n := vxAllocs(func() { err = m.Build(setters...) })
	vxAssert(err == nil, "rebuilding succeeds")
	vxAssert(n == 0, "rebuilding a warmed Message with pointer setters allocates nothing")
}

// vxC20Rebuild: Build twice with the same setters, the second time measured.
func vxC20Rebuild(m *Message, setters []Setter, what string) {
	if m.Build(setters...) != nil {
		return
	}
	vxReach("built-" + what)
	var err error
	n := vxAllocs(func() { err = m.Build(setters...) })
	vxAssert(err == nil, what+": rebuilding succeeds")
	vxAssert(n == 0, what+": rebuilding with a pointer setter of this size allocates nothing")
}

// kfC20ManyUnknown: region of the open known finding "unknown-attributes-over-20-entries":
// UnknownAttributes.AddTo encodes into a 40-byte stack buffer ("20 should be enough").
func kfC20ManyUnknown(n int) bool { return n > 20 }

// one pointer setter whose value has ANY length up to its limit (the sizes vh_C20_build enumerates are small)
func vh_C20_build_one() {
	m := new(Message)
	tid := NewTransactionIDSetter(vxID())
	tail := vxChoose(3) // nothing / FINGERPRINT / MESSAGE-INTEGRITY + FINGERPRINT after it
	integrity := MessageIntegrity(vxBytes(5, 5))
	with := func(s Setter) []Setter {
		switch tail {
		case 0:
			return []Setter{BindingRequest, tid, s}
		case 1:
			return []Setter{BindingRequest, tid, s, Fingerprint}
		}
		return []Setter{BindingRequest, tid, s, &integrity, Fingerprint}
	}
	switch vxChoose(6) {
	case 0:
		n := vxLen(513)
		u := Username(vxBytes(n, n))
		vxC20Rebuild(m, with(&u), "USERNAME")
	case 1:
		n := vxLen(763)
		r := Realm(vxBytes(n, n))
		vxC20Rebuild(m, with(&r), "REALM")
	case 2:
		n := vxLen(763)
		x := Software(vxBytes(n, n))
		vxC20Rebuild(m, with(&x), "SOFTWARE")
	case 3:
		n := vxLen(763)
		c := &ErrorCodeAttribute{Code: ErrorCode(vxU16()), Reason: vxBytes(n, n)}
		vxC20Rebuild(m, with(c), "ERROR-CODE")
	case 4:
		n := vxChoose(24)
		if vxKnownOpen("unknown-attributes-over-20-entries") {
			vxAssume(!kfC20ManyUnknown(n))
		}
		u := make(UnknownAttributes, n)
		for i := range u {
			u[i] = AttrType(vxU16())
		}
		vxC20Rebuild(m, with(&u), "UNKNOWN-ATTRIBUTES")
	default:
		n := [4]int{4, 16, 0, 7}[vxChoose(4)] // valid families and invalid lengths (the setter refuses those)
		a := &XORMappedAddress{IP: vxBytes(n, n), Port: int(vxU16())}
		vxC20Rebuild(m, with(a), "XOR-MAPPED-ADDRESS")
	}
}

// the same restricted to the region of the known finding: reports it while it persists
func vh_C20_build_kf_unknown21() {
	m := new(Message)
	n := 21 + vxChoose(3)
	u := make(UnknownAttributes, n)
	for i := range u {
		u[i] = AttrType(vxU16())
	}
	vxC20Rebuild(m, []Setter{BindingError, &u}, "UNKNOWN-ATTRIBUTES")
}

// batch helpers: Parse with several getters, Check with several checkers, ForEach over repeated attributes
func vh_C20_batch() {
	switch vxChoose(2) {
	case 0:
		m, _, ok := vxDecoded(vxK(2, 3))
		if !ok {
			return
		}
		var (
			u Username
			a XORMappedAddress
		)
		getters := []Getter{&u, &a}
		if m.Parse(getters...) != nil {
			return
		}
		vxReach("parsed")
		var err error
		n := vxAllocs(func() { err = m.Parse(getters...) })
		vxAssert(err == nil, "Parse succeeds again")
		vxAssert(n == 0, "Parse with warmed getters allocates nothing")
	default:
		m, _, ok := vxDecoded(vxK(2, 3))
		if !ok {
			return
		}
		t := AttrType(vxU16())
		var last TextAttribute
		count := 0
		visit := func(m *Message) error {
			count++
			return last.GetFromAs(m, t)
		}
		if m.ForEach(t, visit) != nil {
			return
		}
		if count >= 2 {
			vxReach("visited-two")
		}
		vxReach("iterated")
		var err error
		n := vxAllocs(func() { err = m.ForEach(t, visit) })
		vxAssert(err == nil, "ForEach succeeds again")
		vxAssert(n == 0, "ForEach over the attributes of one type allocates nothing")
	}
}

// Check with both checkers in one batch on a library-signed message
func vh_C20_check_batch() {
	buf, key := vxC20Signed(1, true, true)
	m := new(Message)
	if _, err := m.Write(buf); err != nil {
		return
	}
	checkers := []Checker{Fingerprint, &key}
	vxAssert(m.Check(checkers...) == nil, "the library's message passes both checks")
	vxReach("checked")
	var err error
	n := vxAllocs(func() { err = m.Check(checkers...) })
	vxAssert(err == nil, "both checks pass again")
	vxAssert(n == 0, "Message.Check with FINGERPRINT and MESSAGE-INTEGRITY allocates nothing")
}

// Add of one attribute of any length on a reset Message (the growth boundary of Message.grow)
func vh_C20_add() {
	m := new(Message)
	if vxChoose(2) == 1 {
		m = New()
		vxReach("new")
	}
	t := AttrType(vxU16())
	n := vxLen(vxK(300, 2000))
	v := vxBytes(n, n)
	build := func() {
		m.Reset()
		m.WriteHeader()
		m.Add(t, v)
	}
	build()
	vxReach("warmed")
	a := vxAllocs(build)
	vxAssert(a == 0, "re-adding an attribute of the same length to a reset Message allocates nothing")
}

// reachability twin: a deliberately allocating operation must be reported
func vh_C20_selftest() {
	m, _, ok := vxDecoded(1)
	if !ok {
		return
	}
	var c *Message
	n := vxAllocs(func() {
		c = new(Message)
		m.CloneTo(c) //nolint:errcheck
	})
	vxAssert(n == 0 || c == nil, "selftest: deliberately false (cloning into a fresh Message allocates)")
}
