package stun

import "time"

// C15 — "when Close returns, the reader and collector goroutines have exited".
//
// Join model (vxJoinModel): goroutines started by the code under test are not run when they are
// started; sync.WaitGroup counts, and a Wait with a positive counter lets the pending goroutines
// run to completion, one after the other (a blocking select inside them sees every closed channel
// and every ticker as ready and picks nondeterministically).  A goroutine that nothing waited for
// has therefore not run when Close returns, and vxGoroutinesLive() counts it: Close returning
// without joining is exactly what this model exposes.  Natively vxGoroutinesLive is
// runtime.NumGoroutine() minus its value at vxJoinModel(true), on one P.

// the real ticker collector (the default of NewClient): Close joins its goroutine
func vh_C15_collector_joins() {
	vxUnwind(3, true) // at most 3 ticks are delivered before the goroutine observes the closed channel
	vxJoinModel(true)
	col := &tickerCollector{close: make(chan struct{}), clock: &vxClock{now: vxTime()}}
	ticks := 0
	vxAssert(col.Start(time.Second, func(time.Time) { ticks++ }) == nil, "Start succeeds")
	vxAssert(vxGoroutinesLive() == 1, "Start runs the collector in its own goroutine")
	vxAssert(col.Close() == nil, "Close succeeds")
	vxReach("closed")
	if ticks > 0 {
		vxReach("ticked-while-closing")
	}
	vxAssert(vxGoroutinesLive() == 0, "when the collector's Close returns its goroutine has exited")
}

// Client.Close joins the reader goroutine (and closes the collector first)
func vh_C15_close_joins() {
	vxJoinModel(true)
	var env *vxClientEnv
	if vxChoose(2) == 1 {
		env = vxNewClient(WithNoConnClose())
		env.conn.eofs = 1 << 30 // precondition: under WithNoConnClose the connection's Read eventually returns (here: always EOF)
		vxReach("no-conn-close")
	} else {
		env = vxNewClient()
		vxReach("conn-closed")
	}
	vxAssert(vxGoroutinesLive() == 1, "NewClient starts the reader goroutine")
	vxAssert(env.c.Close() == nil, "Close succeeds")
	vxAssert(vxGoroutinesLive() == 0, "when Close returns the reader goroutine has exited")
}

// reachability twin
func vh_C15_joins_selftest() {
	vxJoinModel(true)
	env := vxNewClient()
	vxAssert(vxGoroutinesLive() == 0, "selftest: deliberately false (the reader goroutine is running)")
	_ = env.c.Close()
}
