package stun

// C17 — URIs get RFC 7064/7065 defaults, round-trip, and dial the transport they name.

// vxHostChar: bytes that may appear in a reg-name / IPv4 host (no separators).
func vxIsHostChar(c byte) bool {
	return ('a' <= c && c <= 'z') || ('0' <= c && c <= '9') || c == '.' || c == '-'
}

// vxHostPiece: a host as written in the URI and as it must be reported:
// a reg-name of 1..3 host characters, or a bracketed literal "[" + 1..3 bytes + "]".
func vxHostPiece() (written, host string) {
	n := 1 + vxChoose(vxK(2, 3))
	s := vxString(n, n)
	if vxChoose(2) == 0 {
		for i := 0; i < n; i++ {
			vxAssume(vxIsHostChar(vxStrAt(s, i)))
		}
		vxReach("reg-name")
		return s, s
	}
	for i := 0; i < n; i++ { // anything that url.Parse keeps inside the opaque part and that does not close the bracket
		c := vxStrAt(s, i)
		vxAssume(c >= ' ' && c < 0x7f && c != ']' && c != '[' && c != '?' && c != '#')
	}
	vxReach("bracketed")
	return "[" + s + "]", s
}

// vxPortPiece: absent, or ":" + 1..5 arbitrary bytes out of digits, sign and a letter.
// Returns the text, whether it is a valid decimal port and its value.
func vxPortPiece() (written string, present, valid bool, value int) {
	if vxChoose(2) == 0 {
		vxReach("no-port")
		return "", false, true, 0
	}
	n := 1 + vxChoose(vxK(3, 5))
	s := vxString(n, n)
	// reading of the text as a decimal integer with optional sign (as strconv.Atoi reads it);
	// it denotes a port iff it is a number within 0..65535 ("-0" and "+80" do, "-1" and "65536" do not)
	value = 0
	valid = true
	neg := false
	for i := 0; i < n; i++ {
		c := vxStrAt(s, i)
		vxAssume(('0' <= c && c <= '9') || c == '-' || c == '+' || c == 'x')
		switch {
		case '0' <= c && c <= '9':
			value = value*10 + int(c-'0')
		case i == 0 && n > 1 && c == '+':
		case i == 0 && n > 1 && c == '-':
			neg = true
		default:
			valid = false
		}
	}
	if value > 65535 || (neg && value != 0) {
		valid = false
	}
	vxReach("with-port")
	return ":" + s, true, valid, value
}

// vxQueryPiece: absent / "?transport=<0..3 bytes>" / "?<k>=<v>" / "?transport=udp&<k>=<v>"
// Returns the text and the RFC 7065 reading: ok (acceptable for turn/turns), the transport named ("" = none).
func vxQueryPiece() (written string, empty, ok bool, transport string) {
	switch vxChoose(4) {
	case 0:
		vxReach("no-query")
		return "", true, true, ""
	case 1:
		n := vxChoose(4)
		v := vxString(n, n)
		for i := 0; i < n; i++ {
			c := vxStrAt(v, i)
			vxAssume('a' <= c && c <= 'z')
		}
		vxReach("transport-query")
		return "?transport=" + v, false, v == "udp" || v == "tcp", v
	case 2:
		k := vxString(1, 1)
		c := vxStrAt(k, 0)
		vxAssume('a' <= c && c <= 'z')
		vxReach("other-key")
		return "?" + k + "=1", false, false, ""
	default:
		vxReach("two-keys")
		return "?transport=udp&x=1", false, false, "udp"
	}
}

// (a) accepted URIs have a known scheme, non-empty host, port 0..65535 with RFC defaults,
//
//	and the transport of RFC 7064/7065; everything else is rejected.
func vh_C17_parse() {
	prefix, scheme := vxSchemePrefix()
	hw, host := vxHostPiece()
	pw, hasPort, portOK, port := vxPortPiece()
	qw, noQuery, queryOK, transport := vxQueryPiece()
	u, err := ParseURI(prefix + hw + pw + qw)
	secure := scheme == SchemeTypeSTUNS || scheme == SchemeTypeTURNS
	isTurn := scheme == SchemeTypeTURN || scheme == SchemeTypeTURNS
	wantOK := portOK
	if isTurn {
		wantOK = wantOK && queryOK
	} else {
		wantOK = wantOK && noQuery // RFC 7064: stun/stuns URIs carry no query
	}
	if !wantOK {
		vxReach("must-reject")
		vxAssert(err != nil, "invalid port, stun/stuns query, unknown transport or extra query keys are rejected")
		return
	}
	vxReach("must-accept")
	vxAssert(err == nil && u != nil, "a well-formed URI is accepted")
	if err != nil || u == nil {
		return
	}
	vxAssert(u.Scheme == scheme, "scheme is the one written")
	vxAssert(u.Host == host && u.Host != "", "host is the one written (without brackets), non-empty")
	if hasPort {
		vxAssert(u.Port == port, "port is the one written")
	} else if secure {
		vxAssert(u.Port == 5349, "default port for stuns/turns is 5349")
	} else {
		vxAssert(u.Port == 3478, "default port for stun/turn is 3478")
	}
	vxAssert(u.Port >= 0 && u.Port <= 65535, "port is within 0..65535")
	switch {
	case scheme == SchemeTypeSTUN:
		vxAssert(u.Proto == ProtoTypeUDP, "stun uses UDP")
	case scheme == SchemeTypeSTUNS:
		vxAssert(u.Proto == ProtoTypeTCP, "stuns uses TCP")
	case transport == "udp":
		vxAssert(u.Proto == ProtoTypeUDP, "?transport=udp selects UDP")
	case transport == "tcp":
		vxAssert(u.Proto == ProtoTypeTCP, "?transport=tcp selects TCP")
	case scheme == SchemeTypeTURN:
		vxAssert(u.Proto == ProtoTypeUDP, "turn defaults to UDP")
	default:
		vxAssert(u.Proto == ProtoTypeTCP, "turns defaults to TCP")
	}
	vxAssert(u.IsSecure() == secure, "IsSecure is true exactly for stuns/turns")
}

// every accepted URI satisfies the range/default invariants, whatever its text (free-form suffix)
func vh_C17_accepted() {
	prefix, scheme := vxSchemePrefix()
	max := 4
	if vxThorough() {
		max = 6
	}
	s := vxASCIIString(max)
	u, err := ParseURI(prefix + s)
	if err != nil {
		return
	}
	vxReach("accepted")
	if scheme == SchemeTypeSTUN || scheme == SchemeTypeSTUNS {
		// RFC 7064: no query.  The query is what follows the first '?' up to a '#'.
		q, hash := -1, len(s)
		for i := len(s) - 1; i >= 0; i-- {
			if s[i] == '#' {
				hash = i
			}
		}
		for i := hash - 1; i >= 0; i-- {
			if s[i] == '?' {
				q = i
			}
		}
		// (a query that consists of separators only, "?" or "?&", has no parameters and is tolerated)
		for i := 0; i < len(s); i++ {
			vxAssert(vxImplies(q >= 0 && i > q && i < hash, s[i] == '&'), "an accepted stun/stuns URI carries no query parameters")
		}
	}
	vxAssert(u.Scheme == scheme, "accepted URI has the written scheme")
	vxAssert(u.Host != "", "accepted URI has a non-empty host")
	vxAssert(u.Port >= 0 && u.Port <= 65535, "accepted URI has a port within 0..65535")
	vxAssert(u.Proto == ProtoTypeUDP || u.Proto == ProtoTypeTCP, "accepted URI has a known transport")
	if scheme == SchemeTypeSTUN {
		vxAssert(u.Proto == ProtoTypeUDP, "stun uses UDP")
	}
	if scheme == SchemeTypeSTUNS {
		vxAssert(u.Proto == ProtoTypeTCP, "stuns uses TCP")
	}
}

// five-digit ports: both sides of 65535
func vh_C17_portrange() {
	prefix, _ := vxSchemePrefix()
	d := vxString(5, 5)
	v := 0
	for i := 0; i < 5; i++ {
		c := vxStrAt(d, i)
		vxAssume('0' <= c && c <= '9')
		v = v*10 + int(c-'0')
	}
	u, err := ParseURI(prefix + "h:" + d)
	if v <= 65535 {
		vxReach("in-range")
		vxAssert(err == nil && u != nil && u.Port == v, "a five-digit port up to 65535 is accepted with its value")
	} else {
		vxReach("out-of-range")
		vxAssert(err != nil, "a port above 65535 is rejected")
	}
}

// kfC17SlashHost: region of the open known finding "slash-host-roundtrip".
func kfC17SlashHost(u *URI) bool { return len(u.Host) > 0 && u.Host[0] == '/' }

func vxRoundTrip(u *URI) {
	s := u.String()
	back, err := ParseURI(s)
	vxAssert(err == nil && back != nil, "formatting an accepted URI gives a string that parses")
	if err != nil || back == nil {
		return
	}
	vxAssert(*back == *u, "parse(format(u)) == u")
}

// (b) round trip of every accepted URI (structured pieces, IPv6-style bracketed hosts included)
func vh_C17_roundtrip() {
	prefix, _ := vxSchemePrefix()
	hw, _ := vxHostPiece()
	// concrete port texts (formatting a symbolic integer is the standard library's business)
	pw := []string{"", ":0", ":7", ":+80", ":3478", ":5349", ":65535"}[vxChoose(7)]
	qw, _, _, _ := vxQueryPiece()
	u, err := ParseURI(prefix + hw + pw + qw)
	if err != nil {
		return
	}
	if vxKnownOpen("slash-host-roundtrip") {
		vxAssume(!kfC17SlashHost(u))
	}
	vxReach("accepted")
	vxRoundTrip(u)
}

// the same restricted to the region of the known finding: reports it while it persists
func vh_C17_roundtrip_kf_slashhost() {
	prefix, _ := vxSchemePrefix()
	n := 1 + vxChoose(2)
	s := vxString(n, n)
	vxAssume(vxStrAt(s, 0) == '/')
	if n > 1 {
		vxAssume(vxIsHostChar(vxStrAt(s, 1)))
	}
	u, err := ParseURI(prefix + "[" + s + "]:1")
	if err != nil {
		return
	}
	vxReach("accepted")
	vxRoundTrip(u)
}

func vh_C17_selftest() {
	hw, _ := vxHostPiece()
	u, err := ParseURI("turn:" + hw)
	if err != nil {
		return
	}
	vxAssert(u.Proto == ProtoTypeTCP, "selftest: deliberately false (turn defaults to UDP)")
}
