package crc32

// CRC-32 lemmas on the standard library's own code (hash/crc32.simpleMakeTable,
// simpleUpdate), injected into package hash/crc32 by overlay.  They justify the
// one assumption C05's message-level harness makes about the uninterpreted CRC:
// two equal-length byte strings that differ exactly in a burst of <= 32 bits
// have different CRC-32 (IEEE) values.
//
// Argument: (L4) the bit-serial step is linear over GF(2), so the difference of
// two CRC registers evolves by the same step driven by the difference of the
// inputs, independently of the initial value and final inversion; (L1) a burst
// of <= 32 bits whose first bit is 1 entering a zero difference register leaves
// it non-zero; (L2) a zero difference bit keeps a non-zero register non-zero;
// (L3) one table-driven byte step of simpleUpdate equals 8 bit-serial steps.

func vxU32() uint32         { panic("symbolic only") }
func vxU8() uint8           { panic("symbolic only") }
func vxAssume(bool)         { panic("symbolic only") }
func vxAssert(bool, string) { panic("symbolic only") }
func vxReach(string)        { panic("symbolic only") }

// refBitStep: reflected CRC-32 register, one input bit (LSB-first), polynomial IEEE.
func refBitStep(d uint32, bit uint32) uint32 {
	d ^= bit & 1
	return (d >> 1) ^ (IEEE & -(d & 1))
}

// L3: simpleUpdate's table step equals 8 bit steps, for every register value and byte.
func vh_CRC_L3_table_step() {
	tab := simpleMakeTable(IEEE) // built concretely by the real simplePopulateTable
	crc, v := vxU32(), vxU8()
	got := simpleUpdate(crc, tab, []byte{v})
	s := ^crc
	for j := uint(0); j < 8; j++ {
		s = refBitStep(s, uint32(v>>j))
	}
	vxReach("L3")
	vxAssert(got == ^s, "L3: one simpleUpdate table step == 8 bit-serial steps")
}

// L4: the bit step is linear.
func vh_CRC_L4_linear() {
	d1, d2, b1, b2 := vxU32(), vxU32(), vxU32(), vxU32()
	vxReach("L4")
	vxAssert(refBitStep(d1^d2, b1^b2) == refBitStep(d1, b1)^refBitStep(d2, b2), "L4: bit step is linear over GF(2)")
}

// L1: a <=32-bit burst starting with a 1 entering a zero register leaves it non-zero.
func vh_CRC_L1_burst() {
	p := vxU32()
	vxAssume(p&1 == 1) // first bit of the burst (bits beyond the burst's end are zero and covered by L2)
	d := uint32(0)
	for j := uint(0); j < 32; j++ {
		d = refBitStep(d, p>>j)
	}
	vxReach("L1")
	vxAssert(d != 0, "L1: 32 difference bits starting with 1 into a zero register give a non-zero register")
}

// L2: a zero difference bit keeps a non-zero register non-zero.
func vh_CRC_L2_zero_bit() {
	d := vxU32()
	vxAssume(d != 0)
	vxReach("L2")
	vxAssert(refBitStep(d, 0) != 0, "L2: a zero bit keeps a non-zero register non-zero")
}

// reachability twin
func vh_CRC_selftest() {
	d := vxU32()
	vxAssert(refBitStep(d, 1) != 0, "selftest: deliberately false")
}
