package hmac

// C20 (pool layer) — in steady state the pooled HMAC allocates nothing, whatever the key length.
//
// The stun package's C20 harnesses treat AcquireSHA1/Write/Sum/PutSHA1 as one
// abstract MAC; this harness discharges the part they assume: with a pool that
// already holds an object (any earlier key, on either side of the block size),
// acquire(key) / write / sum into a buffer with room / put raises no
// heap-allocation event.  SHA-1 / SHA-256 are the engine's abstract digests:
// New and MarshalBinary count as allocations, Sum appends (and counts when
// the destination lacks capacity).

func vxC20Cycle(alg int, key, text, room []byte) {
	if alg == 0 {
		h := AcquireSHA1(key)
		h.Write(text) //nolint:errcheck
		_ = h.Sum(room[:0])
		PutSHA1(h)
		return
	}
	h := AcquireSHA256(key)
	h.Write(text) //nolint:errcheck
	_ = h.Sum(room[:0])
	PutSHA256(h)
}

func vh_C20_pool() {
	alg := vxChoose(2)
	// the earlier use that warmed the pool: any key length 0..200
	k0 := vxLen(200)
	vxC20Cycle(alg, vxBytes(k0, k0), vxBytes(3, 3), make([]byte, 32))
	// the measured use: any key length 0..300 (both sides of the 64-byte block), any text up to 40 bytes
	kn, tn := vxLen(300), vxLen(40)
	key, text := vxBytes(kn, kn), vxBytes(tn, tn)
	room := make([]byte, 32)
	if kn > vxBlock {
		vxReach("long-key")
	} else {
		vxReach("short-key")
	}
	n := vxAllocs(func() { vxC20Cycle(alg, key, text, room) })
	vxAssert(n == 0, "acquire/write/sum/put on a warm pool allocates nothing, whatever the key length")
}

// reachability twin: a cold pool must be reported (New allocates the object and its digests)
func vh_C20_pool_selftest() {
	key := vxBytes(4, 4)
	n := vxAllocs(func() { vxC20Cycle(0, key, nil, make([]byte, 32)) })
	vxAssert(n == 0, "selftest: deliberately false (a cold pool allocates)")
}
