package hmac

import (
	"crypto/sha1" //nolint:gosec
	"crypto/sha256"
	"hash"
)

// C18 — the pooled HMAC equals RFC 2104 HMAC for every key, message and reuse history.
//
// SHA-1 / SHA-256 are uninterpreted functions over byte sequences (vxSHA1,
// vxSHA256), shared by the implementation (crypto/sha1.New etc. are modelled as
// "the sequence of bytes written so far") and by the RFC 2104 oracle below.
// Induction: the object handed out by sync.Pool is modelled in an ARBITRARY
// state (only invariant: inner/outer are digests of the pool's algorithm), which
// is a superset of what any history of earlier uses can leave behind.

const vxBlock = 64

func vxNewDigest(alg int) hash.Hash {
	if alg == 0 {
		return sha1.New()
	}
	return sha256.New()
}

// vxRecycled: an *hmac in arbitrary state.
func vxRecycled(alg int) *hmac {
	h := new(hmac)
	h.outer, h.inner = vxNewDigest(alg), vxNewDigest(alg)
	n1, n2 := vxLen(9), vxLen(9)
	h.inner.Write(vxBytes(n1, n1)) //nolint:errcheck
	h.outer.Write(vxBytes(n2, n2)) //nolint:errcheck
	switch vxChoose(3) {
	case 0: // pads as New/resetTo leave them
		h.ipad, h.opad = vxBytes(vxBlock, vxBlock), vxBytes(vxBlock, vxBlock)
		h.marshaled = false
	case 1: // pads replaced by marshalled digest states (longer than a block), as Reset leaves them
		h.ipad, h.opad = vxBytes(96, 96), vxBytes(108, 108)
		h.marshaled = true
	default: // anything else, including too little capacity and an inconsistent flag
		h.ipad, h.opad = vxBytes(3, 5), nil
		h.marshaled = true
	}
	return h
}

// refHMAC: RFC 2104 over the uninterpreted hash.
func refHash(alg int, b []byte) []byte {
	if alg == 0 {
		d := vxSHA1(b)
		return d[:]
	}
	d := vxSHA256(b)
	return d[:]
}

func refHMAC(alg int, key, text []byte) []byte {
	k0 := key
	if len(key) > vxBlock {
		k0 = refHash(alg, key)
	}
	in := make([]byte, vxBlock, vxBlock+len(text))
	out := make([]byte, vxBlock, vxBlock+32)
	for i := 0; i < vxBlock; i++ {
		var kb byte
		if i < len(k0) {
			kb = k0[i]
		}
		in[i] = kb ^ 0x36
		out[i] = kb ^ 0x5c
	}
	in = append(in, text...)
	out = append(out, refHash(alg, in)...)
	return refHash(alg, out)
}

func vxDigestLen(alg int) int {
	if alg == 0 {
		return 20
	}
	return 32
}

// vxCheckSum: Sum(prefix) == prefix || HMAC(key, text)
func vxCheckSum(h hash.Hash, alg int, key, text []byte, what string) {
	pn := 2 * vxChoose(2) // no prefix, or a 2-byte prefix with spare capacity for the digest
	prefix := vxBytes(pn, pn*24)
	sum := h.Sum(prefix)
	want := refHMAC(alg, key, text)
	dl := vxDigestLen(alg)
	vxAssert(len(sum) == pn+dl, what+": Sum appends one digest to its argument")
	keeps := true
	for i := 0; i < pn && i < len(sum); i++ {
		keeps = keeps && sum[i] == prefix[i]
	}
	vxAssert(keeps, what+": Sum keeps its argument's bytes")
	ok := true
	for i := 0; i < dl && pn+i < len(sum); i++ {
		ok = ok && sum[pn+i] == want[i]
	}
	vxAssert(ok, what+": Sum returns the RFC 2104 HMAC of the bytes written since the last reset")
}

func vxKeyBytes() []byte {
	n := vxLen(70) // both sides of the 64-byte block
	if n > vxBlock {
		vxReach("long-key")
	} else {
		vxReach("short-key")
	}
	return vxBytes(n, n)
}

// resetTo on an arbitrary recycled object, then a script of Write/Sum/Reset steps.
func vh_C18_reuse() {
	alg := 0
	if vxThorough() {
		alg = vxChoose(2)
	}
	h := vxRecycled(alg)
	key := vxKeyBytes()
	h.resetTo(key)
	text := make([]byte, 0, 64)
	steps := 2
	if vxThorough() {
		steps = 3
	}
	for s := 0; s < steps; s++ {
		switch vxChoose(3) {
		case 0:
			cn := vxLen(8)
			chunk := vxBytes(cn, cn)
			n, err := h.Write(chunk)
			vxAssert(err == nil && n == cn, "Write consumes the chunk")
			text = append(text, chunk...)
			vxReach("write")
		case 1:
			vxCheckSum(h, alg, key, text, "mid-script")
			vxReach("sum-then-continue")
		default:
			h.Reset()
			text = text[:0]
			vxReach("reset")
		}
	}
	vxCheckSum(h, alg, key, text, "final")
	vxAssert(h.Size() == vxDigestLen(alg) && h.BlockSize() == vxBlock, "Size and BlockSize are those of the hash")
}

// vh_C18_script: longer Write/Sum/Reset scripts (5 quick / 6 thorough steps, chunks of 0..2 bytes) on an
// object re-keyed once: state that an implementation keeps across Sum and Reset (a cached digest, a
// "dirty" flag) only shows after several steps, e.g. Reset, Write, Sum, Reset, Sum.
func vh_C18_script() {
	alg := 0
	key := vxBytes(3, 3)
	hh := New(sha1.New, key)
	h, isH := hh.(*hmac)
	vxAssert(isH, "New returns the pooled implementation")
	if vxChoose(2) == 1 {
		// re-keyed after an earlier use with another key
		h.Write(vxBytes(1, 1)) //nolint:errcheck
		h.Reset()
		key = vxBytes(2, 2)
		h.resetTo(key)
		vxReach("rekeyed")
	}
	text := make([]byte, 0, 16)
	steps := 5
	if vxThorough() {
		steps = 6
	}
	for s := 0; s < steps; s++ {
		switch vxChoose(3) {
		case 0:
			chunk := vxBytes(1, 1)
			n, err := h.Write(chunk)
			vxAssert(err == nil && n == 1, "Write consumes the chunk")
			text = append(text, chunk...)
			vxReach("write")
		case 1:
			vxCheckSumPlain(h, alg, key, text, "mid-script (long)")
			vxReach("sum-then-continue")
		default:
			h.Reset()
			text = text[:0]
			vxReach("reset")
		}
	}
	vxCheckSumPlain(h, alg, key, text, "final (long)")
}

// vxCheckSumPlain: Sum(nil) == HMAC(key, text)
func vxCheckSumPlain(h hash.Hash, alg int, key, text []byte, what string) {
	sum := h.Sum(nil)
	want := refHMAC(alg, key, text)
	dl := vxDigestLen(alg)
	vxAssert(len(sum) == dl, what+": Sum(nil) returns one digest")
	ok := true
	for i := 0; i < dl && i < len(sum); i++ {
		ok = ok && sum[i] == want[i]
	}
	vxAssert(ok, what+": Sum returns the RFC 2104 HMAC of the bytes written since the last reset")
}

// the pool entry points: Acquire on an empty pool (New) and on a pool holding a recycled object; Put.
func vh_C18_pool() {
	alg := vxChoose(2)
	recycled := vxChoose(2) == 1
	if recycled {
		if alg == 0 {
			hmacSHA1Pool.Put(vxRecycled(0))
		} else {
			hmacSHA256Pool.Put(vxRecycled(1))
		}
		vxReach("recycled")
	} else {
		vxReach("fresh")
	}
	key := vxKeyBytes()
	var h hash.Hash
	if alg == 0 {
		h = AcquireSHA1(key)
	} else {
		h = AcquireSHA256(key)
	}
	cn := vxLen(8)
	chunk := vxBytes(cn, cn)
	h.Write(chunk) //nolint:errcheck
	vxCheckSum(h, alg, key, chunk, "pooled")
	if alg == 0 {
		PutSHA1(h)
	} else {
		PutSHA256(h)
	}
}

// vh_C18_two_live: "however many goroutines use the pool at once" — two pooled objects are live at the
// same time (a second Acquire before the first Put, as two goroutines would do), used alternately, put
// back and acquired again together: neither may see the other's key or bytes.
func vh_C18_two_live() {
	alg := vxChoose(2)
	acquire := func(key []byte) hash.Hash {
		if alg == 0 {
			return AcquireSHA1(key)
		}
		return AcquireSHA256(key)
	}
	put := func(h hash.Hash) {
		if alg == 0 {
			PutSHA1(h)
		} else {
			PutSHA256(h)
		}
	}
	for round := 0; round < 2; round++ {
		// key lengths on both sides of the block size (every length: vh_C18_reuse / vh_C18_pool)
		l1, l2 := []int{3, 65}[vxChoose(2)], []int{2, 66}[vxChoose(2)]
		k1, k2 := vxBytes(l1, l1), vxBytes(l2, l2)
		if l1 > vxBlock && l2 > vxBlock {
			vxReach("two-long-keys")
		}
		h1 := acquire(k1)
		c1 := vxBytes(2, 2)
		h1.Write(c1) //nolint:errcheck
		h2 := acquire(k2)
		vxAssert(h1 != h2, "two live users never share one pooled object")
		c2 := vxBytes(3, 3)
		h2.Write(c2) //nolint:errcheck
		c3 := vxBytes(1, 1)
		h1.Write(c3) //nolint:errcheck
		vxCheckSumPlain(h2, alg, k2, c2, "second of two live users")
		vxCheckSumPlain(h1, alg, k1, append(append([]byte{}, c1...), c3...), "first of two live users")
		put(h1)
		put(h2)
		if round == 1 {
			vxReach("second-round")
		}
	}
}

// New (not pooled) is RFC 2104 as well.
func vh_C18_new() {
	alg := vxChoose(2)
	key := vxKeyBytes()
	var h hash.Hash
	if alg == 0 {
		h = New(sha1.New, key)
	} else {
		h = New(sha256.New, key)
	}
	cn := vxLen(8)
	chunk := vxBytes(cn, cn)
	h.Write(chunk) //nolint:errcheck
	vxCheckSum(h, alg, key, chunk, "New")
	h.Reset()
	vxCheckSum(h, alg, key, nil, "New, after Reset")
	vxReach("new")
}

// Equal is equality of length and content.
func vh_C18_equal() {
	la, lb := []int{0, 1, 20, 21}[vxChoose(4)], []int{0, 1, 20, 21}[vxChoose(4)]
	a, b := vxBytes(la, la), vxBytes(lb, lb)
	eq := la == lb
	for i := 0; i < la && i < lb; i++ {
		eq = eq && a[i] == b[i]
	}
	vxAssert(Equal(a, b) == eq, "Equal is equality of length and of every byte")
	vxReach("equal")
}

func vh_C18_selftest() {
	h := New(sha1.New, vxKeyBytes())
	sum := h.Sum(nil)
	want := vxSHA1(nil)
	vxAssert(sum[0] == want[0], "selftest: deliberately false (HMAC of the empty message is not SHA1 of it)")
}

// No shared mutable state: everything acquire/write/sum/reset/put touches belongs to the pooled object
// (or is read-only); a write to a package-level variable with no lock held would be raced on by
// concurrent users of the pool ("however many goroutines use the pool at once").
func vh_C18_no_shared_state() {
	alg := vxChoose(2)
	kn := vxLen(70)
	key := vxBytes(kn, kn)
	if kn > vxBlock {
		vxReach("long-key")
	} else {
		vxReach("short-key")
	}
	text := vxBytes(3, 3)
	vxSharedWatch(true)
	var h hash.Hash
	if alg == 0 {
		h = AcquireSHA1(key)
	} else {
		h = AcquireSHA256(key)
	}
	h.Write(text) //nolint:errcheck
	_ = h.Sum(nil)
	h.Reset()
	h.Write(text) //nolint:errcheck
	_ = h.Sum(nil)
	if alg == 0 {
		PutSHA1(h)
	} else {
		PutSHA256(h)
	}
	vxSharedWatch(false)
	vxReach("done")
}
