// Harness API ("vx"): symbolically these functions are intercepted by name
// by /verif/engine; natively (counterexample replay) the bodies below feed the
// harness with the values of the solver's model, in call order.
//
// This file is injected into package stun through a build overlay; it is
// never written into /repo.
package hmac

import (
	chmac "crypto/hmac"
	"crypto/md5"  //nolint:gosec
	"crypto/sha1" //nolint:gosec
	"crypto/sha256"
	"encoding/hex"
	"encoding/json"
	"fmt"
	"hash/crc32"
	"os"
	"runtime"
	"strconv"
	"strings"
	"sync"
	"time"
	"unsafe"
)

type vxVal struct {
	K string `json:"k"`
	W int    `json:"w"`
	V string `json:"v"`
	N int64  `json:"n"`
	C int64  `json:"c"`
	B string `json:"b"`
}

type vxReplayFile struct {
	Harness string  `json:"harness"`
	Tags    string  `json:"tags"`
	Kind    string  `json:"kind"`
	Label   string  `json:"label"`
	Pos     string  `json:"pos"`
	Values  []vxVal `json:"values"`
}

var vxRun struct {
	file   vxReplayFile
	pos    int
	loaded bool
}

type vxAssumeFailed struct{}
type vxAssertFailed struct{ label string }

func vxLoad() {
	if vxRun.loaded {
		return
	}
	vxRun.loaded = true
	b, err := os.ReadFile(os.Getenv("VX_REPLAY"))
	if err != nil {
		panic("vx: cannot read replay file: " + err.Error())
	}
	if err := json.Unmarshal(b, &vxRun.file); err != nil {
		panic("vx: bad replay file: " + err.Error())
	}
}

func vxNext(kind string) vxVal {
	vxLoad()
	if vxRun.pos >= len(vxRun.file.Values) {
		// the native run left the solver's path: values beyond the model are zero
		return vxVal{K: kind, V: "0"}
	}
	v := vxRun.file.Values[vxRun.pos]
	vxRun.pos++
	if v.K != kind {
		panic(fmt.Sprintf("vx: replay desynchronised: want %s got %s at %d", kind, v.K, vxRun.pos-1))
	}
	return v
}

func vxNum(kind string) uint64 {
	v := vxNext(kind)
	u, _ := strconv.ParseUint(v.V, 10, 64)
	return u
}

func vxInt() int    { return int(int64(vxNum("int"))) }
func vxU64() uint64 { return vxNum("u64") }

// vxLen returns an arbitrary int in [0, max].
func vxLen(max int) int {
	n := int(int64(vxNum("int")))
	if n < 0 || n > max {
		panic(vxAssumeFailed{})
	}
	return n
}
func vxU32() uint32 { return uint32(vxNum("u32")) }
func vxU16() uint16 { return uint16(vxNum("u16")) }
func vxU8() uint8   { return uint8(vxNum("u8")) }

// vxForced, when non-nil, supplies vxBool's results (model validation; exhausted -> false).
var vxForced []bool

func vxBool() bool {
	if vxForced != nil {
		if len(vxForced) == 0 {
			return false
		}
		b := vxForced[0]
		vxForced = vxForced[1:]
		return b
	}
	return vxNum("bool") != 0
}
func vxChoose(int) int { return int(vxNum("choose")) }

// vxBytes returns a slice of length n and capacity c with arbitrary content
// (also in [n, c)).
func vxBytes(n, c int) []byte {
	v := vxNext("bytes")
	if n < 0 || n > c {
		panic(vxAssumeFailed{})
	}
	b := make([]byte, c)
	raw, _ := hex.DecodeString(v.B)
	copy(b, raw)
	return b[:n:c]
}

// vxString returns an arbitrary string of length n <= max.
func vxString(n, max int) string {
	v := vxNext("string")
	if n < 0 || n > max {
		panic(vxAssumeFailed{})
	}
	raw, _ := hex.DecodeString(v.B)
	b := make([]byte, n)
	copy(b, raw)
	return string(b)
}

// vxASCIIString returns an arbitrary string of 0..max ASCII bytes.
func vxASCIIString(max int) string {
	n := vxLen(max)
	s := vxString(n, max)
	for i := 0; i < len(s); i++ {
		if s[i] >= 0x80 {
			panic(vxAssumeFailed{})
		}
	}
	return s
}

func vxID() (id [12]byte) {
	for i := range id {
		id[i] = vxU8()
	}
	return id
}

func vxTime() time.Time { return time.Unix(0, int64(vxNum("i64"))) }

func vxAssume(c bool) {
	if !c {
		panic(vxAssumeFailed{})
	}
}

func vxAssert(c bool, label string) {
	if !c {
		panic(vxAssertFailed{label})
	}
}

func vxThorough() bool { return os.Getenv("VX_TIER") == "thorough" }
func vxKnownOpen(key string) bool {
	for _, k := range strings.Split(os.Getenv("VX_KNOWN"), ",") {
		if k == key {
			return true
		}
	}
	return false
}
func vxReach(string)         {}
func vxUnwind(int, bool)     {}
func vxGuard(_, _, _ string) {}

// vxSpawn runs f concurrently (natively: on another goroutine, shortly after the caller blocks).
func vxSpawn(f func()) {
	go func() {
		time.Sleep(20 * time.Millisecond)
		f()
	}()
}

// vxNativeRun is true in native replays, false in the symbolic run.
func vxNativeRun() bool { return true }

// vxDTLSServerName is only observable in the symbolic run.
func vxDTLSServerName() string { return "" }

func vxConcretize(x, _, _ int) int { return x }

// vxLoopCut enables loop-cut induction in the symbolic run; natively the loop simply runs.
func vxLoopCut(_, _ string) {}

func vxGuardsOff() {}

// vxStepBudget bounds the number of SSA instructions of the symbolic run from here on (0 = off);
// natively a run that does not terminate is stopped by the replay's timeout.
func vxStepBudget(int) {}

// vxMutexHeld reports whether mu is currently locked.
func vxMutexHeld(mu *sync.Mutex) bool {
	if mu.TryLock() {
		mu.Unlock()
		return false
	}
	return true
}

// vxRWMutexHeld reports whether mu is currently locked (by a writer or by readers).
func vxRWMutexHeld(mu *sync.RWMutex) bool {
	if mu.TryLock() {
		mu.Unlock()
		return false
	}
	return true
}
func vxNote(string)              {}
func vxIsNilSlice(s []byte) bool { return s == nil }

// vxStrAt reads s[i], or 0 when i is out of range (never panics).
func vxStrAt(s string, i int) byte {
	if i < 0 || i >= len(s) {
		return 0
	}
	return s[i]
}

// vxAt reads b[i], or 0 when i is out of range (never panics).
func vxAt(b []byte, i int) byte {
	if i < 0 || i >= len(b) {
		return 0
	}
	return b[i]
}

func vxExtent(s []byte) (lo, hi uintptr) {
	if cap(s) == 0 {
		return 0, 0
	}
	p := uintptr(unsafe.Pointer(unsafe.SliceData(s)))
	return p, p + uintptr(cap(s))
}

// vxSameObject reports whether a lies inside the allocation visible through b
// (or vice versa).
func vxSameObject(a, b []byte) bool {
	if a == nil || b == nil {
		return false
	}
	alo, ahi := vxExtent(a)
	blo, bhi := vxExtent(b)
	if alo == 0 || blo == 0 {
		// zero-capacity views: compare data pointers against the other's extent
		pa := uintptr(unsafe.Pointer(unsafe.SliceData(a)))
		pb := uintptr(unsafe.Pointer(unsafe.SliceData(b)))
		if alo == 0 && blo != 0 {
			return pa >= blo && pa <= bhi
		}
		if blo == 0 && alo != 0 {
			return pb >= alo && pb <= ahi
		}
		return pa == pb
	}
	return (alo >= blo && alo < bhi) || (blo >= alo && blo < ahi)
}

// vxOffset is the distance in bytes from the start of base to the start of s
// (both views of one object).
func vxOffsetIn(s, base []byte) int {
	ps := uintptr(unsafe.Pointer(unsafe.SliceData(s)))
	pb := uintptr(unsafe.Pointer(unsafe.SliceData(base)))
	return int(ps) - int(pb)
}

func vxSHA1(b []byte) [20]byte   { return sha1.Sum(b) } //nolint:gosec
func vxSHA256(b []byte) [32]byte { return sha256.Sum256(b) }
func vxMD5(b []byte) [16]byte    { return md5.Sum(b) } //nolint:gosec
func vxCRC32(b []byte) uint32    { return crc32.ChecksumIEEE(b) }
func vxHMACSHA1(key, b []byte) (r [20]byte) {
	h := chmac.New(sha1.New, key)
	h.Write(b) //nolint:errcheck
	copy(r[:], h.Sum(nil))
	return r
}

// vxReplayMain runs one harness natively and classifies the outcome.
func vxReplayMain(harnesses map[string]func()) (verdict, detail string) {
	vxLoad()
	fn := harnesses[vxRun.file.Harness]
	if fn == nil {
		return "ERROR", "unknown harness " + vxRun.file.Harness
	}
	defer func() {
		if r := recover(); r != nil {
			switch x := r.(type) {
			case vxAssumeFailed:
				verdict, detail = "ASSUME-FAILED", "an assumption of the harness does not hold for the replayed values"
			case vxAssertFailed:
				verdict, detail = "VIOLATION", "assert: "+x.label
			default:
				verdict, detail = "VIOLATION", fmt.Sprintf("panic: %v", r)
			}
		}
	}()
	fn()
	return "NO-VIOLATION", ""
}

// vxAllocs: symbolically the number of heap-allocation sites f executes (engine/alloc.go);
// natively the number of mallocs of ONE call of f on one P (the measurement of
// testing.AllocsPerRun without its warm-up call and averaging: the harness does its own
// warm-up, and an allocation that only the first call after some history performs must count).
func vxAllocs(f func()) int {
	defer runtime.GOMAXPROCS(runtime.GOMAXPROCS(1))
	var ms runtime.MemStats
	runtime.ReadMemStats(&ms)
	before := ms.Mallocs
	f()
	runtime.ReadMemStats(&ms)
	return int(ms.Mallocs - before)
}

// vxSharedWatch: symbolically, from now on a write to a package-level variable of the package under
// test with no mutex held is reported (lock-discipline); natively a no-op (confirmation is the race run).
func vxSharedWatch(on bool) {}

var vxGoBase int

// vxJoinModel / vxGoroutinesLive: see zz_vx_c15j.go.  Natively: goroutines alive now minus those alive
// when the model was switched on, measured on one P so that a goroutine nobody waited for cannot have run.
func vxJoinModel(on bool) {
	if on {
		runtime.GOMAXPROCS(1)
		vxGoBase = runtime.NumGoroutine()
	}
}

func vxGoroutinesLive() int { return runtime.NumGoroutine() - vxGoBase }
