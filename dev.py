#!/usr/bin/env python3
"""dev.py <harness[,harness]> [tier] [pkg] [tags] [known,keys] — run harnesses directly through the engine (development aid)"""
import sys, json, os, shutil
import vcheck
hs = sys.argv[1].split(",")
tier = sys.argv[2] if len(sys.argv) > 2 else "quick"
pkg = sys.argv[3] if len(sys.argv) > 3 else "."
tags = sys.argv[4] if len(sys.argv) > 4 else ""
known = sys.argv[5].split(",") if len(sys.argv) > 5 and sys.argv[5] else []
vcheck.ensure_engine()
out = os.path.join(vcheck.WORK, "dev-%d" % os.getpid())
os.makedirs(out, exist_ok=True)
extra = ["-workers", "16"] + (os.environ.get("DEV_ARGS", "").split() if os.environ.get("DEV_ARGS") else [])
res = vcheck.run_engine(pkg, tags, hs, tier, 0, known, extra, out)
for r in res:
    r["pkg"] = pkg
    print(r["harness"], "paths", r.get("paths"), "queries", r.get("queries"), "solver_s", round(r.get("solver_s", 0), 1), "wall", round(r.get("wall_s", 0), 1),
          "inconclusive", r.get("inconclusive"), "reach", r.get("reach"))
    if r.get("unsupported"):
        print("  UNSUPPORTED:", r["unsupported"][:1500])
    for n in (r.get("notes") or [])[:5]:
        print("  note:", n[:300])
    for v in r.get("violations") or []:
        print("  VIOL", v.get("kind"), v.get("label"), v.get("pos"))
        if "--replay" in sys.argv or os.environ.get("DEV_REPLAY"):
            print("     native:", vcheck.native_replay_pkg(v, r, tier))
        print("     file:", v.get("replay"))
